//! Byte-level drivers (cargo-fuzz / libFuzzer).  Each supported property has a hand-written total
//! decoder from bytes to its case type (no rejection: every byte string decodes to a valid case; an
//! exhausted input reads as zeros), and the oracle is the property's own `run()`.
//!
//! (proptest's `RngAlgorithm::PassThrough` was tried as a generic decoder and dropped: once its
//! window is exhausted it yields zeros and rand 0.9's Lemire sampling then rejects forever.)

use crate::gen::*;
use crate::props::{c10, c12, c13, c15, c19};
use crate::runner::*;
use std::collections::BTreeSet;
use std::sync::{Once, OnceLock};

pub struct ByteSrc<'a> {
    data: &'a [u8],
    pos: usize,
}

impl<'a> ByteSrc<'a> {
    pub fn new(data: &'a [u8]) -> Self {
        ByteSrc { data, pos: 0 }
    }
    pub fn u8(&mut self) -> u8 {
        let v = self.data.get(self.pos).copied().unwrap_or(0);
        self.pos += 1;
        v
    }
    pub fn u16(&mut self) -> u16 {
        u16::from_le_bytes([self.u8(), self.u8()])
    }
    pub fn below(&mut self, n: usize) -> usize {
        if n == 0 {
            0
        } else {
            self.u8() as usize % n
        }
    }
    pub fn bool(&mut self) -> bool {
        self.u8() & 1 == 1
    }
    /// small dyadic number k / 2^s
    pub fn nice(&mut self) -> f64 {
        let k = self.u8() as i8 as f64 / 2.0;
        let s = self.below(3);
        (k.trunc()) / (1u32 << s) as f64
    }
    pub fn nice_sparse(&mut self) -> f64 {
        let b = self.u8();
        if b % 4 == 0 {
            0.0
        } else {
            ((b as i8) / 8) as f64 / 2.0
        }
    }
    pub fn lattice(&mut self, n: usize) -> Vec<f64> {
        (0..n).map(|_| ((self.u8() as i8) / 4) as f64 / 4.0).collect()
    }
    pub fn vec_sparse(&mut self, n: usize) -> Vec<f64> {
        (0..n).map(|_| self.nice_sparse()).collect()
    }
    pub fn exhausted(&self) -> bool {
        self.pos >= self.data.len()
    }
}

pub trait FromBytes: Sized {
    fn decode(src: &mut ByteSrc) -> Self;
}

fn sel(src: &mut ByteSrc) -> c12::Sel {
    match src.below(10) {
        0..=6 => c12::Sel::Live(src.u16()),
        7 => c12::Sel::Dead(src.u16()),
        8 => c12::Sel::Far(src.u8() % 4),
        _ => c12::Sel::Root,
    }
}

fn tree_op(src: &mut ByteSrc) -> c12::Op {
    match src.below(16) {
        0..=8 => c12::Op::Add { p: sel(src), label: src.u8(), v: src.u8() as i8 },
        9 | 10 => c12::Op::TryRemove { p: sel(src), label: src.u8() },
        11 => c12::Op::Remove { p: sel(src), label: src.u8() },
        12 => c12::Op::RemoveDesc { n: sel(src) },
        13 | 14 => c12::Op::Merge { p: sel(src), label: src.u8() },
        _ => c12::Op::Update { n: sel(src), v: src.u8() as i8 },
    }
}

impl FromBytes for c12::Case {
    fn decode(src: &mut ByteSrc) -> Self {
        let k = if src.bool() { 3 } else { 2 };
        let n = src.u8() as usize % 64;
        let mut ops = Vec::new();
        for _ in 0..n {
            if src.exhausted() {
                break;
            }
            ops.push(tree_op(src));
        }
        c12::Case { k, ops }
    }
}

impl FromBytes for c13::Case {
    fn decode(src: &mut ByteSrc) -> Self {
        let k = if src.bool() { 3 } else { 2 };
        let kind = src.u8() % 4;
        let start = src.u16();
        let ns = src.u8() as usize % 32;
        let script: Vec<bool> = (0..ns).map(|_| src.u8() % 4 != 0).collect();
        let n = src.u8() as usize % 48;
        let mut build = Vec::new();
        for _ in 0..n {
            if src.exhausted() {
                break;
            }
            build.push(tree_op(src));
        }
        c13::Case { k, build, start, kind, script, chain: 0 }
    }
}

fn row_spec(src: &mut ByteSrc, n: usize) -> RowSpec {
    match src.below(12) {
        0..=3 => RowSpec::Random { a: src.vec_sparse(n), b: src.nice() },
        4 => RowSpec::Dup { of: src.u16() },
        5 => RowSpec::PosMul { of: src.u16(), f: src.u8() % 4 },
        6 => RowSpec::NegMul { of: src.u16(), f: src.u8() % 4 },
        7 => RowSpec::Parallel { of: src.u16(), b: src.nice() },
        8 => RowSpec::Zero { b: [1.0, 0.0, -1.0, 0.5][src.below(4)] },
        9 => RowSpec::EqPair { a: src.vec_sparse(n), b: src.nice() },
        10 => RowSpec::Axis { axis: src.u16(), neg: src.bool(), b: src.nice() },
        _ => {
            if src.bool() {
                RowSpec::Through { a: src.vec_sparse(n), anchor: src.u16() }
            } else {
                RowSpec::Around { a: src.vec_sparse(n), anchor: src.u16(), slack: (src.u8() % 33) as f64 / 4.0 }
            }
        }
    }
}

pub fn poly_spec_bytes(src: &mut ByteSrc, max_dim: usize, max_rows: usize) -> PolySpec {
    let n = 1 + src.below(max_dim);
    let na = 1 + src.below(3);
    let anchors = (0..na).map(|_| src.lattice(n)).collect();
    let m = src.below(max_rows + 1);
    let mut rows = Vec::new();
    for _ in 0..m {
        rows.push(row_spec(src, n));
    }
    PolySpec { dim: n, anchors, rows, scales: Vec::new() }
}

impl FromBytes for c15::Case {
    fn decode(src: &mut ByteSrc) -> Self {
        let mut p = poly_spec_bytes(src, 4, 10);
        if p.rows.is_empty() {
            p.rows.push(RowSpec::Axis { axis: 0, neg: false, b: 1.0 });
        }
        let rm = (0..24).map(|_| src.u8() % 3 == 0).collect();
        c15::Case { p, rm }
    }
}

impl FromBytes for c10::Case {
    fn decode(src: &mut ByteSrc) -> Self {
        let p = poly_spec_bytes(src, 4, 10);
        let n = p.dim;
        let no = 1 + src.below(3);
        let objs = (0..no)
            .map(|_| match src.below(4) {
                0 => c10::ObjSpec::Zero,
                1 => c10::ObjSpec::Row { of: src.u16(), neg: src.bool() },
                2 => c10::ObjSpec::Axis { j: src.u16(), neg: src.bool() },
                _ => c10::ObjSpec::Random(src.vec_sparse(n)),
            })
            .collect();
        c10::Case { sys: c10::Sys::Spec(p), objs }
    }
}

fn fmt_bound(src: &mut ByteSrc) -> c19::B {
    match src.below(5) {
        0 | 1 => c19::B::Inc(src.below(10) as i32 - 1),
        2 | 3 => c19::B::Exc(src.below(10) as i32 - 1),
        _ => c19::B::Unb,
    }
}

fn fmt_num(src: &mut ByteSrc) -> f64 {
    match src.below(12) {
        0..=3 => src.nice(),
        4..=6 => (src.u16() as i16 % 1000) as f64 / 100.0,
        7 => src.nice() * 1e6,
        8 => src.nice() * 1e-5,
        9 => -0.0,
        10 => 0.0,
        _ => (src.u16() as i16) as f64 / 1000.0 + 0.0005,
    }
}

impl FromBytes for c19::Case {
    fn decode(src: &mut ByteSrc) -> Self {
        let poly = src.bool();
        let n = 1 + src.below(7);
        let m = 1 + src.below(6);
        let rows: Vec<Vec<f64>> = (0..m).map(|_| (0..n).map(|_| fmt_num(src)).collect()).collect();
        let bias: Vec<f64> = (0..m).map(|_| fmt_num(src)).collect();
        let a = Aff { mat: Mat { rows, cols: n }, bias };
        let default_skip = || (c19::B::Inc(1), c19::B::Exc(0));
        let opts = c19::Opts {
            sort: src.u8() % 5,
            simplify_zero: src.bool(),
            simplify_tautologies: src.bool(),
            normalize: src.bool(),
            skip_axes: if src.u8() % 3 == 0 { default_skip() } else { (fmt_bound(src), fmt_bound(src)) },
            skip_rows: if src.u8() % 2 == 0 { default_skip() } else { (fmt_bound(src), fmt_bound(src)) },
        };
        let prec = if src.u8() % 3 == 0 { None } else { Some(src.u8() % 9) };
        if poly {
            c19::Case::Poly { a, opts, prec }
        } else {
            c19::Case::Func { a, opts, prec }
        }
    }
}

static INIT: Once = Once::new();
static OPEN: OnceLock<BTreeSet<String>> = OnceLock::new();

/// One fuzz iteration.  Known findings are tolerated exactly as in the check; any other failure
/// writes a JSON replay and aborts (libFuzzer then saves the input as an artifact).
pub fn fuzz_case<P: Property>(p: &P, data: &[u8])
where
    P::Case: FromBytes,
{
    INIT.call_once(|| {
        // replaces libFuzzer's abort-on-any-panic hook: documented panics are caught by `guard`
        install_quiet_panic_hook();
    });
    let open = OPEN.get_or_init(|| load_known(&verif_root(), p.id()).into_iter().map(|k| k.signature).collect());
    let case = <P::Case as FromBytes>::decode(&mut ByteSrc::new(data));
    match run_case_public(p, &case, open) {
        Ok(()) => {}
        Err((infra, f)) => {
            if infra {
                eprintln!("INFRA-ERROR in fuzz target {}: {}", p.id(), f.msg);
            } else {
                let path = write_replay(&verif_root(), p.id(), &case, &f, "found");
                eprintln!("failure: {}", f.msg);
                println!("VIOLATION property={} replay={}", p.id(), path.display());
            }
            std::process::abort();
        }
    }
}

/// Decodes a raw fuzzer input and runs it (artifact replay).
pub fn replay_artifact<P: Property>(p: &P, data: &[u8]) -> i32
where
    P::Case: FromBytes,
{
    install_quiet_panic_hook();
    let root = verif_root();
    let open: BTreeSet<String> = load_known(&root, p.id()).into_iter().map(|k| k.signature).collect();
    let case = <P::Case as FromBytes>::decode(&mut ByteSrc::new(data));
    match run_case_public(p, &case, &open) {
        Ok(()) => {
            println!("artifact: property {} holds on the decoded case", p.id());
            0
        }
        Err((true, f)) => {
            eprintln!("INFRA-ERROR {}", f.msg);
            2
        }
        Err((false, f)) => {
            let rp = write_replay(&root, p.id(), &case, &f, "found");
            println!("failure: {}", f.msg);
            println!("VIOLATION property={} replay={}", p.id(), rp.display());
            1
        }
    }
}
