//! Byte-level drivers (cargo-fuzz / libFuzzer).  Each supported property has a hand-written total
//! decoder from bytes to its case type (no rejection: every byte string decodes to a valid case; an
//! exhausted input reads as zeros), and the oracle is the property's own `run()`.
//!
//! (proptest's `RngAlgorithm::PassThrough` was tried as a generic decoder and dropped: once its
//! window is exhausted it yields zeros and rand 0.9's Lemire sampling then rejects forever.)

use crate::gen::*;
use crate::gen_tree::*;
use crate::hist::*;
use crate::props::{c02, c06, c07, c08, c09, c10, c12, c13, c15, c19};
use crate::schema::SchemaSpec;
use crate::runner::*;
use std::collections::BTreeSet;
use std::sync::{Once, OnceLock};

pub struct ByteSrc<'a> {
    data: &'a [u8],
    pos: usize,
}

impl<'a> ByteSrc<'a> {
    pub fn new(data: &'a [u8]) -> Self {
        ByteSrc { data, pos: 0 }
    }
    pub fn u8(&mut self) -> u8 {
        let v = self.data.get(self.pos).copied().unwrap_or(0);
        self.pos += 1;
        v
    }
    pub fn u16(&mut self) -> u16 {
        u16::from_le_bytes([self.u8(), self.u8()])
    }
    pub fn below(&mut self, n: usize) -> usize {
        if n == 0 {
            0
        } else {
            self.u8() as usize % n
        }
    }
    pub fn bool(&mut self) -> bool {
        self.u8() & 1 == 1
    }
    /// small dyadic number k / 2^s
    pub fn nice(&mut self) -> f64 {
        let k = self.u8() as i8 as f64 / 2.0;
        let s = self.below(3);
        (k.trunc()) / (1u32 << s) as f64
    }
    pub fn nice_sparse(&mut self) -> f64 {
        let b = self.u8();
        if b % 4 == 0 {
            0.0
        } else {
            ((b as i8) / 8) as f64 / 2.0
        }
    }
    pub fn lattice(&mut self, n: usize) -> Vec<f64> {
        (0..n).map(|_| ((self.u8() as i8) / 4) as f64 / 4.0).collect()
    }
    pub fn vec_sparse(&mut self, n: usize) -> Vec<f64> {
        (0..n).map(|_| self.nice_sparse()).collect()
    }
    pub fn exhausted(&self) -> bool {
        self.pos >= self.data.len()
    }
}

pub trait FromBytes: Sized {
    fn decode(src: &mut ByteSrc) -> Self;
}

fn sel(src: &mut ByteSrc) -> c12::Sel {
    match src.below(10) {
        0..=6 => c12::Sel::Live(src.u16()),
        7 => c12::Sel::Dead(src.u16()),
        8 => c12::Sel::Far(src.u8() % 4),
        _ => c12::Sel::Root,
    }
}

fn tree_op(src: &mut ByteSrc) -> c12::Op {
    match src.below(16) {
        0..=8 => c12::Op::Add { p: sel(src), label: src.u8(), v: src.u8() as i8 },
        9 | 10 => c12::Op::TryRemove { p: sel(src), label: src.u8() },
        11 => c12::Op::Remove { p: sel(src), label: src.u8() },
        12 => c12::Op::RemoveDesc { n: sel(src) },
        13 | 14 => c12::Op::Merge { p: sel(src), label: src.u8() },
        _ => c12::Op::Update { n: sel(src), v: src.u8() as i8 },
    }
}

impl FromBytes for c12::Case {
    fn decode(src: &mut ByteSrc) -> Self {
        let k = if src.bool() { 3 } else { 2 };
        let n = src.u8() as usize % 64;
        let mut ops = Vec::new();
        for _ in 0..n {
            if src.exhausted() {
                break;
            }
            ops.push(tree_op(src));
        }
        c12::Case { k, ops, bulk: 0 }
    }
}

impl FromBytes for c13::Case {
    fn decode(src: &mut ByteSrc) -> Self {
        let k = if src.bool() { 3 } else { 2 };
        let kind = src.u8() % 4;
        let start = src.u16();
        let ns = src.u8() as usize % 32;
        let script: Vec<bool> = (0..ns).map(|_| src.u8() % 4 != 0).collect();
        let n = src.u8() as usize % 48;
        let mut build = Vec::new();
        for _ in 0..n {
            if src.exhausted() {
                break;
            }
            build.push(tree_op(src));
        }
        c13::Case { k, build, start, kind, script, chain: 0, bulk: 0 }
    }
}

fn row_spec(src: &mut ByteSrc, n: usize) -> RowSpec {
    match src.below(12) {
        0..=3 => RowSpec::Random { a: src.vec_sparse(n), b: src.nice() },
        4 => RowSpec::Dup { of: src.u16() },
        5 => RowSpec::PosMul { of: src.u16(), f: src.u8() % 4 },
        6 => RowSpec::NegMul { of: src.u16(), f: src.u8() % 4 },
        7 => RowSpec::Parallel { of: src.u16(), b: src.nice() },
        8 => RowSpec::Zero { b: [1.0, 0.0, -1.0, 0.5][src.below(4)] },
        9 => RowSpec::EqPair { a: src.vec_sparse(n), b: src.nice() },
        10 => RowSpec::Axis { axis: src.u16(), neg: src.bool(), b: src.nice() },
        _ => {
            if src.bool() {
                RowSpec::Through { a: src.vec_sparse(n), anchor: src.u16() }
            } else {
                RowSpec::Around { a: src.vec_sparse(n), anchor: src.u16(), slack: (src.u8() % 33) as f64 / 4.0 }
            }
        }
    }
}

pub fn poly_spec_bytes(src: &mut ByteSrc, max_dim: usize, max_rows: usize) -> PolySpec {
    let n = 1 + src.below(max_dim);
    let na = 1 + src.below(3);
    let anchors = (0..na).map(|_| src.lattice(n)).collect();
    let m = src.below(max_rows + 1);
    let mut rows = Vec::new();
    for _ in 0..m {
        rows.push(row_spec(src, n));
    }
    PolySpec { dim: n, anchors, rows, scales: Vec::new() }
}

impl FromBytes for c15::Case {
    fn decode(src: &mut ByteSrc) -> Self {
        let mut p = poly_spec_bytes(src, 4, 10);
        if p.rows.is_empty() {
            p.rows.push(RowSpec::Axis { axis: 0, neg: false, b: 1.0 });
        }
        let rm = (0..24).map(|_| src.u8() % 3 == 0).collect();
        c15::Case { p, rm }
    }
}

impl FromBytes for c10::Case {
    fn decode(src: &mut ByteSrc) -> Self {
        let p = poly_spec_bytes(src, 4, 10);
        let n = p.dim;
        let no = 1 + src.below(3);
        let objs = (0..no)
            .map(|_| match src.below(4) {
                0 => c10::ObjSpec::Zero,
                1 => c10::ObjSpec::Row { of: src.u16(), neg: src.bool() },
                2 => c10::ObjSpec::Axis { j: src.u16(), neg: src.bool() },
                _ => c10::ObjSpec::Random(src.vec_sparse(n)),
            })
            .collect();
        c10::Case { sys: c10::Sys::Spec(p), objs }
    }
}

fn fmt_bound(src: &mut ByteSrc) -> c19::B {
    match src.below(5) {
        0 | 1 => c19::B::Inc(src.below(10) as i32 - 1),
        2 | 3 => c19::B::Exc(src.below(10) as i32 - 1),
        _ => c19::B::Unb,
    }
}

fn fmt_num(src: &mut ByteSrc) -> f64 {
    match src.below(12) {
        0..=3 => src.nice(),
        4..=6 => (src.u16() as i16 % 1000) as f64 / 100.0,
        7 => src.nice() * 1e6,
        8 => src.nice() * 1e-5,
        9 => -0.0,
        10 => 0.0,
        _ => (src.u16() as i16) as f64 / 1000.0 + 0.0005,
    }
}

impl FromBytes for c19::Case {
    fn decode(src: &mut ByteSrc) -> Self {
        let poly = src.bool();
        let n = 1 + src.below(7);
        let m = 1 + src.below(6);
        let rows: Vec<Vec<f64>> = (0..m).map(|_| (0..n).map(|_| fmt_num(src)).collect()).collect();
        let bias: Vec<f64> = (0..m).map(|_| fmt_num(src)).collect();
        let a = Aff { mat: Mat { rows, cols: n }, bias };
        let default_skip = || (c19::B::Inc(1), c19::B::Exc(0));
        let opts = c19::Opts {
            sort: src.u8() % 5,
            simplify_zero: src.bool(),
            simplify_tautologies: src.bool(),
            normalize: src.bool(),
            skip_axes: if src.u8() % 3 == 0 { default_skip() } else { (fmt_bound(src), fmt_bound(src)) },
            skip_rows: if src.u8() % 2 == 0 { default_skip() } else { (fmt_bound(src), fmt_bound(src)) },
        };
        let prec = if src.u8() % 3 == 0 { None } else { Some(src.u8() % 9) };
        if poly {
            c19::Case::Poly { a, opts, prec }
        } else {
            c19::Case::Func { a, opts, prec }
        }
    }
}

// ---------------------------------------------------------------------------------------------
// trees and histories

fn aff_bytes(src: &mut ByteSrc, out: usize, inn: usize) -> Aff {
    let rows: Vec<Vec<f64>> = (0..out).map(|_| src.vec_sparse(inn)).collect();
    let bias = src.vec_sparse(out);
    Aff { mat: Mat { rows, cols: inn }, bias }
}

fn scale_bytes(src: &mut ByteSrc) -> i8 {
    let b = src.u8();
    if b % 8 == 0 {
        ((src.u8() % 73) as i8) - 36
    } else {
        0
    }
}

fn pred_row_bytes(src: &mut ByteSrc, n: usize) -> PredRow {
    let mut a = src.vec_sparse(n);
    let sel = src.u8();
    if a.iter().all(|x| *x == 0.0) && sel % 16 != 0 {
        a[sel as usize % n] = 1.0;
    }
    let b = if src.bool() { BiasSpec::Val(src.nice()) } else { BiasSpec::Through(src.u16()) };
    let anc = if src.u8() % 5 == 0 { Some((src.u16(), src.bool(), [0.0, 0.0, 1.0, -1.0, 0.5][src.below(5)])) } else { None };
    PredRow { a, b, anc, scale: scale_bytes(src) }
}

fn leaf_bytes(src: &mut ByteSrc, out: usize, inn: usize) -> LeafSpec {
    match src.below(4) {
        0 | 1 => LeafSpec::Pool(src.u16()),
        2 => LeafSpec::Near { pool: src.u16(), which: src.u16(), delta: [1.0, -1.0, 0.5, 2.0][src.below(4)] },
        _ => LeafSpec::Fresh(aff_bytes(src, out, inn)),
    }
}

fn tnode_bytes(src: &mut ByteSrc, max_rows: usize, inn: usize, out: usize, depth: u32, total: bool) -> TNode {
    if depth == 0 || src.exhausted() || src.u8() % 4 == 0 {
        return TNode::Leaf(leaf_bytes(src, out, inn));
    }
    let r = 1 + src.below(max_rows);
    let rows: Vec<PredRow> = (0..r).map(|_| pred_row_bytes(src, inn)).collect();
    let mut kids: Vec<Option<TNode>> = (0..(1usize << r))
        .map(|_| if total || src.u8() % 6 != 0 { Some(tnode_bytes(src, max_rows, inn, out, depth - 1, total)) } else { None })
        .collect();
    if kids.iter().all(|k| k.is_none()) {
        kids[0] = Some(TNode::Leaf(LeafSpec::Pool(0)));
    }
    TNode::Dec { rows, kids }
}

/// total decoder for a tree specification of arity `k` (2, 4 or 8)
pub fn tree_spec_bytes(src: &mut ByteSrc, k: usize, inn: usize, out: usize, max_depth: u32, total: bool) -> TreeSpec {
    let max_rows = if k >= 8 { 3 } else if k >= 4 { 2 } else { 1 };
    let pool = (0..(2 + src.below(2))).map(|_| aff_bytes(src, out, inn)).collect();
    let anchors = (0..(1 + src.below(3))).map(|_| src.lattice(inn)).collect();
    let depth = src.below(max_depth as usize + 1) as u32;
    let root = tnode_bytes(src, max_rows, inn, out, depth, total);
    let order = (0..src.below(6)).map(|_| src.u16()).collect();
    let junk = if total { Vec::new() } else { (0..src.below(6)).map(|_| src.u8()).collect() };
    let leaf_scale = if src.u8() % 10 == 0 { ((src.u8() % 49) as i8) - 24 } else { 0 };
    TreeSpec { in_dim: inn, out_dim: out, pool, anchors, root, order, junk, leaf_scale }
}

fn dyadic_param(src: &mut ByteSrc) -> f64 {
    ((src.u8() % 49) as f64 - 24.0) / (1u32 << src.below(3)) as f64
}

fn schema_bytes(src: &mut ByteSrc) -> SchemaSpec {
    match src.below(11) {
        0 | 1 => SchemaSpec::ReLU { row: src.u16() },
        2 => SchemaSpec::Leaky { row: src.u16(), alpha: [0.0, 0.5, -1.0, 2.0, 0.125][src.below(5)] },
        3 => SchemaSpec::HardTanh { row: src.u16(), min: dyadic_param(src), width: (src.u8() % 17) as f64 / 4.0 },
        4 => SchemaSpec::HardShrink { row: src.u16(), lambda: (src.u8() % 17) as f64 / 4.0 },
        5 => SchemaSpec::HardSigmoid { row: src.u16() },
        6 => SchemaSpec::Threshold { row: src.u16(), t: dyadic_param(src), v: dyadic_param(src) },
        7 | 8 => SchemaSpec::Argmax,
        9 => SchemaSpec::ClassChar { clazz: src.u16() },
        _ => {
            let m = dyadic_param(src);
            let w = (src.u8() % 17) as f64 / 4.0;
            match src.below(3) {
                0 => SchemaSpec::InfNorm { min: Some(m), max: Some(m + w) },
                1 => SchemaSpec::InfNorm { min: Some(m), max: None },
                _ => SchemaSpec::InfNorm { min: None, max: Some(w - 2.0) },
            }
        }
    }
}

fn point_bytes(src: &mut ByteSrc, n: usize) -> PointSpec {
    match src.below(5) {
        0 | 1 => PointSpec::Anchor(src.u16()),
        2 | 3 => PointSpec::Neighbour { anchor: src.u16(), axis: src.u16(), step: [1i8, -1, 2, -2, 4, -4][src.below(6)] },
        _ => PointSpec::Free(src.lattice(n)),
    }
}

fn points_bytes(src: &mut ByteSrc, n: usize) -> Vec<PointSpec> {
    (0..(6 + src.below(5))).map(|_| point_bytes(src, n)).collect()
}

fn poly_spec_dim(src: &mut ByteSrc, n: usize, max_rows: usize) -> PolySpec {
    let anchors = (0..(1 + src.below(3))).map(|_| src.lattice(n)).collect();
    let m = 1 + src.below(max_rows);
    let rows = (0..m).map(|_| row_spec(src, n)).collect();
    PolySpec { dim: n, anchors, rows, scales: Vec::new() }
}

fn gspec_bytes(src: &mut ByteSrc, total: bool) -> GSpec {
    if src.u8() % 5 < 2 {
        GSpec::Tree(tree_spec_bytes(src, 2, MAXD, MAXD, 2, total))
    } else {
        GSpec::Schema(schema_bytes(src))
    }
}

/// total decoder for an operation history (all specifications in dimension MAXD, projected at
/// interpretation time like the generated ones); `total` = only total trees and totality-preserving ops (C06)
pub fn history_bytes(src: &mut ByteSrc, total: bool, max_ops: usize) -> History {
    let in_dim = 1 + src.below(MAXD);
    let out0 = src.u8();
    let ctor = match src.below(10) {
        0 | 1 => Ctor::New,
        2 => Ctor::FromAff(aff_bytes(src, MAXD, MAXD)),
        3 | 4 => {
            let p = poly_spec_dim(src, MAXD, 3);
            let ft = aff_bytes(src, MAXD, MAXD);
            let ff = if total || src.bool() { Some(aff_bytes(src, MAXD, MAXD)) } else { None };
            Ctor::FromPoly { p, ft, ff }
        }
        5 | 6 => Ctor::Schema(schema_bytes(src)),
        _ => Ctor::Tree(tree_spec_bytes(src, 2, MAXD, MAXD, 2, total)),
    };
    let n_ops = 1 + src.below(max_ops);
    let mut ops = Vec::new();
    for _ in 0..n_ops {
        if src.exhausted() && !ops.is_empty() {
            break;
        }
        let op = if total {
            match src.below(13) {
                0..=2 => HOp::ApplyFunc { a: aff_bytes(src, MAXD, MAXD), out: src.u8() },
                3..=7 => HOp::Compose { prune: false, g: gspec_bytes(src, true), out: src.u8() },
                8 | 9 => HOp::Compose { prune: true, g: gspec_bytes(src, true), out: src.u8() },
                _ => HOp::Eliminate,
            }
        } else {
            match src.below(23) {
                0 | 1 => HOp::ApplyFunc { a: aff_bytes(src, MAXD, MAXD), out: src.u8() },
                2..=5 => HOp::Compose { prune: false, g: gspec_bytes(src, false), out: src.u8() },
                6..=9 => HOp::Compose { prune: true, g: gspec_bytes(src, false), out: src.u8() },
                10..=14 => HOp::Eliminate,
                15 | 16 => HOp::Reduce,
                17 | 18 => HOp::Add { b: tree_spec_bytes(src, 2, MAXD, MAXD, 2, false), variant: src.u8() },
                19 | 20 => HOp::Sub { b: tree_spec_bytes(src, 2, MAXD, MAXD, 2, false), variant: src.u8() },
                21 => HOp::Neg,
                _ => {
                    let a = aff_bytes(src, MAXD, MAXD);
                    match src.below(4) {
                        0 => HOp::AddAff(a),
                        1 => HOp::SubAff(a),
                        2 => HOp::AffAdd(a),
                        _ => HOp::AffSub(a),
                    }
                }
            }
        };
        ops.push(op);
    }
    let points = points_bytes(src, MAXD);
    let anchors = (0..(1 + src.below(3))).map(|_| src.lattice(MAXD)).collect();
    let mut h = History { in_dim, out0, ctor, ops, points, anchors, shift: 0 };
    if total {
        c06::make_total_pub(&mut h);
    }
    h
}

impl FromBytes for c02::Case {
    fn decode(src: &mut ByteSrc) -> Self {
        let k = [2usize, 2, 4, 4, 8][src.below(5)];
        let (n, m, p, q) = (1 + src.below(3), 1 + src.below(3), 1 + src.below(3), 1 + src.below(3));
        let maxd = if k == 8 { 1 } else { 3 };
        let f = tree_spec_bytes(src, k, n, m, maxd, false);
        let g = tree_spec_bytes(src, k, m, p, maxd, false);
        let a = aff_bytes(src, q, m);
        let points = points_bytes(src, n);
        c02::Case { k4: k == 4, k8: k == 8, f, g, g_schema: None, a, points }
    }
}

impl FromBytes for c07::Case {
    fn decode(src: &mut ByteSrc) -> Self {
        let (n, p) = (1 + src.below(3), 1 + src.below(2));
        let a = tree_spec_bytes(src, 2, n, p, 3, false);
        let b = tree_spec_bytes(src, 2, n, p, 3, false);
        let f = aff_bytes(src, p, n);
        let points = points_bytes(src, n);
        c07::Case { a, b, f, points }
    }
}

impl FromBytes for c08::Case {
    fn decode(src: &mut ByteSrc) -> Self {
        let (n, p) = (1 + src.below(3), 1 + src.below(2));
        let total = src.bool();
        let mut t = tree_spec_bytes(src, 2, n, p, 4, total);
        t.pool.truncate(2);
        let points = points_bytes(src, n);
        c08::Case { t, points }
    }
}

impl FromBytes for c09::Case {
    fn decode(src: &mut ByteSrc) -> Self {
        let (n, p) = (1 + src.below(3), 1 + src.below(2));
        let t = tree_spec_bytes(src, 2, n, p, 4, false);
        let points = points_bytes(src, n);
        let script = (0..src.below(20)).map(|_| src.u8() % 4 != 0).collect();
        c09::Case { t, points, script }
    }
}

/// C03, C04 and C06 use `History` itself as their case type; the decoders differ (C06 needs total trees),
/// so the history targets go through these wrappers instead of `FromBytes for History`.
pub fn decode_history(data: &[u8], total: bool) -> History {
    history_bytes(&mut ByteSrc::new(data), total, 8)
}

static INIT: Once = Once::new();
static OPEN: OnceLock<BTreeSet<String>> = OnceLock::new();

/// One fuzz iteration.  Known findings are tolerated exactly as in the check; any other failure
/// writes a JSON replay and aborts (libFuzzer then saves the input as an artifact).
pub fn fuzz_case<P: Property>(p: &P, data: &[u8])
where
    P::Case: FromBytes,
{
    fuzz_case_with(p, data, |d| <P::Case as FromBytes>::decode(&mut ByteSrc::new(d)))
}

pub fn fuzz_case_with<P: Property>(p: &P, data: &[u8], decode: impl Fn(&[u8]) -> P::Case) {
    INIT.call_once(|| {
        // replaces libFuzzer's abort-on-any-panic hook: documented panics are caught by `guard`
        install_quiet_panic_hook();
    });
    let open = OPEN.get_or_init(|| load_known(&verif_root(), p.id()).into_iter().map(|k| k.signature).collect());
    let case = decode(data);
    match run_case_public(p, &case, open) {
        Ok(()) => {}
        Err((infra, f)) => {
            if infra {
                eprintln!("INFRA-ERROR in fuzz target {}: {}", p.id(), f.msg);
            } else {
                let path = write_replay(&verif_root(), p.id(), &case, &f, "found");
                eprintln!("failure: {}", f.msg);
                println!("VIOLATION property={} replay={}", p.id(), path.display());
            }
            std::process::abort();
        }
    }
}

/// Decodes a raw fuzzer input and runs it (artifact replay).
pub fn replay_artifact<P: Property>(p: &P, data: &[u8]) -> i32
where
    P::Case: FromBytes,
{
    replay_artifact_with(p, data, |d| <P::Case as FromBytes>::decode(&mut ByteSrc::new(d)))
}

pub fn replay_artifact_with<P: Property>(p: &P, data: &[u8], decode: impl Fn(&[u8]) -> P::Case) -> i32 {
    install_quiet_panic_hook();
    let root = verif_root();
    let open: BTreeSet<String> = load_known(&root, p.id()).into_iter().map(|k| k.signature).collect();
    let case = decode(data);
    match run_case_public(p, &case, &open) {
        Ok(()) => {
            println!("artifact: property {} holds on the decoded case", p.id());
            0
        }
        Err((true, f)) => {
            eprintln!("INFRA-ERROR {}", f.msg);
            2
        }
        Err((false, f)) => {
            let rp = write_replay(&root, p.id(), &case, &f, "found");
            println!("failure: {}", f.msg);
            println!("VIOLATION property={} replay={}", p.id(), rp.display());
            1
        }
    }
}
