//! Exact rational numbers.  `Q` keeps a fast path on `i128` and falls back to
//! `BigInt` when a checked operation overflows, so all oracle arithmetic is exact.

use num_bigint::BigInt;
use num_integer::Integer;
use num_traits::{One, Signed, ToPrimitive, Zero};
use std::cmp::Ordering;
use std::fmt;
use std::ops::{Add, Div, Mul, Neg, Sub};

#[derive(Clone)]
pub enum Q {
    S(i128, i128),
    B(Box<(BigInt, BigInt)>),
}

fn gcd128(a: i128, b: i128) -> i128 {
    let (mut a, mut b) = (a.unsigned_abs(), b.unsigned_abs());
    if b == 1 || a == 1 {
        return 1;
    }
    while b != 0 {
        if a <= u64::MAX as u128 && b <= u64::MAX as u128 {
            // 64-bit remainder is several times cheaper than the 128-bit one
            let (mut x, mut y) = (a as u64, b as u64);
            while y != 0 {
                let t = x % y;
                x = y;
                y = t;
            }
            return x as i128;
        }
        let t = a % b;
        a = b;
        b = t;
    }
    a as i128
}

const LIM: i128 = 1i128 << 100;

impl Q {
    pub fn zero() -> Q {
        Q::S(0, 1)
    }
    pub fn one() -> Q {
        Q::S(1, 1)
    }
    pub fn int(n: i64) -> Q {
        Q::S(n as i128, 1)
    }
    pub fn frac(n: i64, d: i64) -> Q {
        assert!(d != 0);
        Q::small(n as i128, d as i128)
    }

    fn small(n: i128, d: i128) -> Q {
        debug_assert!(d != 0);
        if n == 0 {
            return Q::S(0, 1);
        }
        let g = gcd128(n, d);
        let (mut n, mut d) = (n / g, d / g);
        if d < 0 {
            n = -n;
            d = -d;
        }
        Q::S(n, d)
    }

    fn big(n: BigInt, d: BigInt) -> Q {
        assert!(!d.is_zero());
        if n.is_zero() {
            return Q::S(0, 1);
        }
        let g = n.gcd(&d);
        let (mut n, mut d) = (n / &g, d / &g);
        if d.is_negative() {
            n = -n;
            d = -d;
        }
        if let (Some(a), Some(b)) = (n.to_i128(), d.to_i128()) {
            if a.unsigned_abs() < (LIM as u128) && b < LIM {
                return Q::S(a, b);
            }
        }
        Q::B(Box::new((n, d)))
    }

    fn parts(&self) -> (BigInt, BigInt) {
        match self {
            Q::S(n, d) => (BigInt::from(*n), BigInt::from(*d)),
            Q::B(b) => (b.0.clone(), b.1.clone()),
        }
    }

    pub fn is_zero(&self) -> bool {
        matches!(self, Q::S(0, _))
    }

    pub fn signum(&self) -> i32 {
        match self {
            Q::S(n, _) => n.signum() as i32,
            Q::B(b) => {
                if b.0.is_negative() {
                    -1
                } else if b.0.is_zero() {
                    0
                } else {
                    1
                }
            }
        }
    }
    pub fn is_neg(&self) -> bool {
        self.signum() < 0
    }
    pub fn is_pos(&self) -> bool {
        self.signum() > 0
    }

    pub fn abs(&self) -> Q {
        if self.is_neg() {
            -self.clone()
        } else {
            self.clone()
        }
    }

    pub fn recip(&self) -> Q {
        assert!(!self.is_zero(), "division by zero in Q");
        match self {
            Q::S(n, d) => Q::small(*d, *n),
            Q::B(b) => Q::big(b.1.clone(), b.0.clone()),
        }
    }

    /// Exact conversion of a finite f64.
    pub fn from_f64(x: f64) -> Q {
        assert!(x.is_finite(), "Q::from_f64 of non-finite value {x}");
        if x == 0.0 {
            return Q::zero();
        }
        let bits = x.to_bits();
        let sign: i128 = if (bits >> 63) != 0 { -1 } else { 1 };
        let exp = ((bits >> 52) & 0x7ff) as i64;
        let frac = (bits & ((1u64 << 52) - 1)) as i128;
        let (mut m, mut e) = if exp == 0 {
            (frac, -1074i64)
        } else {
            (frac | (1i128 << 52), exp - 1075)
        };
        while m & 1 == 0 {
            m >>= 1;
            e += 1;
        }
        let m = m * sign;
        if e >= 0 {
            if e < 40 {
                Q::small(m << e, 1)
            } else {
                Q::big(BigInt::from(m) << (e as usize), BigInt::one())
            }
        } else if -e < 90 {
            Q::small(m, 1i128 << (-e))
        } else {
            Q::big(BigInt::from(m), BigInt::one() << ((-e) as usize))
        }
    }

    /// Nearest f64 (exact when the value is a dyadic rational with a short mantissa).
    pub fn to_f64(&self) -> f64 {
        match self {
            Q::S(n, d) => {
                if *d == 1 {
                    return *n as f64;
                }
                if (*d as u128).is_power_of_two() && n.unsigned_abs() < (1u128 << 53) {
                    return (*n as f64) / (*d as f64);
                }
                // general: use big path for correct rounding of the quotient
                big_to_f64(&BigInt::from(*n), &BigInt::from(*d))
            }
            Q::B(b) => big_to_f64(&b.0, &b.1),
        }
    }

    /// True iff the value is a dyadic rational whose odd mantissa needs at most `bits` bits
    /// and whose magnitude is in the normal f64 range; then `to_f64` is exact and arithmetic on a
    /// few such numbers stays exact in f64.
    pub fn dyadic_bits(&self) -> Option<u32> {
        match self {
            Q::S(n, d) => {
                if *n == 0 {
                    return Some(0);
                }
                if !(*d as u128).is_power_of_two() {
                    return None;
                }
                let mut m = n.unsigned_abs();
                while m & 1 == 0 {
                    m >>= 1;
                }
                Some(128 - m.leading_zeros())
            }
            Q::B(_) => None,
        }
    }

    /// (position of the highest set bit, position of the lowest set bit) of a dyadic number, as powers of two
    pub fn bit_span(&self) -> Option<(i64, i64)> {
        match self {
            Q::S(n, d) => {
                if *n == 0 {
                    return None;
                }
                if !(*d as u128).is_power_of_two() {
                    return None;
                }
                let dexp = (*d as u128).trailing_zeros() as i64;
                let m = n.unsigned_abs();
                let low = m.trailing_zeros() as i64;
                let high = 127 - m.leading_zeros() as i64;
                Some((high - dexp, low - dexp))
            }
            Q::B(b) => {
                use num_traits::{One, Signed, Zero};
                let (n, d) = (&b.0, &b.1);
                if n.is_zero() {
                    return None;
                }
                // denominator must be a power of two
                let dz = d.trailing_zeros()?;
                if (d >> dz) != num_bigint::BigInt::one() {
                    return None;
                }
                let m = n.abs();
                let low = m.trailing_zeros()? as i64;
                let high = m.bits() as i64 - 1;
                Some((high - dz as i64, low - dz as i64))
            }
        }
    }

    pub fn is_exact_f64(&self) -> bool {
        match self.dyadic_bits() {
            Some(b) => b <= 53,
            None => false,
        }
    }

    pub fn min(a: &Q, b: &Q) -> Q {
        if a <= b {
            a.clone()
        } else {
            b.clone()
        }
    }
    pub fn max(a: &Q, b: &Q) -> Q {
        if a >= b {
            a.clone()
        } else {
            b.clone()
        }
    }
}

fn big_to_f64(n: &BigInt, d: &BigInt) -> f64 {
    // scale so that the integer quotient has ~64 significant bits
    let nb = n.bits() as i64;
    let db = d.bits() as i64;
    let shift = 64 - (nb - db);
    let (num, den) = if shift >= 0 {
        (n.clone() << (shift as usize), d.clone())
    } else {
        (n.clone(), d.clone() << ((-shift) as usize))
    };
    let q = &num / &den;
    let qf = q.to_f64().unwrap_or(f64::NAN);
    let s = -(shift as i32);
    let h = s / 2;
    qf * (2f64).powi(h) * (2f64).powi(s - h)
}

impl PartialEq for Q {
    fn eq(&self, other: &Q) -> bool {
        self.cmp(other) == Ordering::Equal
    }
}
impl Eq for Q {}
impl PartialOrd for Q {
    fn partial_cmp(&self, other: &Q) -> Option<Ordering> {
        Some(self.cmp(other))
    }
}
impl Ord for Q {
    fn cmp(&self, other: &Q) -> Ordering {
        if let (Q::S(a, b), Q::S(c, d)) = (self, other) {
            if b == d {
                return a.cmp(c);
            }
            if let (Some(l), Some(r)) = (a.checked_mul(*d), c.checked_mul(*b)) {
                return l.cmp(&r);
            }
        }
        let (a, b) = self.parts();
        let (c, d) = other.parts();
        (a * d).cmp(&(c * b))
    }
}

impl Neg for Q {
    type Output = Q;
    fn neg(self) -> Q {
        match self {
            Q::S(n, d) => Q::S(-n, d),
            Q::B(b) => Q::B(Box::new((-b.0, b.1))),
        }
    }
}
impl Neg for &Q {
    type Output = Q;
    fn neg(self) -> Q {
        -self.clone()
    }
}

impl Add for &Q {
    type Output = Q;
    fn add(self, o: &Q) -> Q {
        if let (Q::S(a, b), Q::S(c, d)) = (self, o) {
            if b == d {
                if let Some(n) = a.checked_add(*c) {
                    if n.unsigned_abs() < (LIM as u128) {
                        return Q::small(n, *b);
                    }
                }
            } else {
                let g = gcd128(*b, *d);
                let (bb, dd) = (b / g, d / g);
                if let (Some(x), Some(y), Some(den)) =
                    (a.checked_mul(dd), c.checked_mul(bb), b.checked_mul(dd))
                {
                    if let Some(n) = x.checked_add(y) {
                        if n.unsigned_abs() < (LIM as u128) && den < LIM {
                            return Q::small(n, den);
                        }
                    }
                }
            }
        }
        let (a, b) = self.parts();
        let (c, d) = o.parts();
        Q::big(a * &d + c * &b, b * d)
    }
}
impl Sub for &Q {
    type Output = Q;
    fn sub(self, o: &Q) -> Q {
        self + &(-o)
    }
}
impl Mul for &Q {
    type Output = Q;
    fn mul(self, o: &Q) -> Q {
        if let (Q::S(a, b), Q::S(c, d)) = (self, o) {
            if *a == 0 || *c == 0 {
                return Q::zero();
            }
            let g1 = gcd128(*a, *d);
            let g2 = gcd128(*c, *b);
            let (a, d) = (a / g1, d / g1);
            let (c, b) = (c / g2, b / g2);
            if let (Some(n), Some(den)) = (a.checked_mul(c), b.checked_mul(d)) {
                if n.unsigned_abs() < (LIM as u128) && den < LIM {
                    return Q::small(n, den);
                }
            }
        }
        let (a, b) = self.parts();
        let (c, d) = o.parts();
        Q::big(a * c, b * d)
    }
}
impl Div for &Q {
    type Output = Q;
    fn div(self, o: &Q) -> Q {
        self * &o.recip()
    }
}
macro_rules! owned_ops {
    ($($tr:ident $m:ident),*) => {$(
        impl $tr for Q { type Output = Q; fn $m(self, o: Q) -> Q { (&self).$m(&o) } }
        impl $tr<&Q> for Q { type Output = Q; fn $m(self, o: &Q) -> Q { (&self).$m(o) } }
        impl $tr<Q> for &Q { type Output = Q; fn $m(self, o: Q) -> Q { self.$m(&o) } }
    )*};
}
owned_ops!(Add add, Sub sub, Mul mul, Div div);

impl fmt::Display for Q {
    fn fmt(&self, f: &mut fmt::Formatter) -> fmt::Result {
        match self {
            Q::S(n, 1) => write!(f, "{}", n),
            Q::S(n, d) => write!(f, "{}/{}", n, d),
            Q::B(b) => write!(f, "{}/{}", b.0, b.1),
        }
    }
}
impl fmt::Debug for Q {
    fn fmt(&self, f: &mut fmt::Formatter) -> fmt::Result {
        fmt::Display::fmt(self, f)
    }
}

pub type QVec = Vec<Q>;

pub fn qdot(a: &[Q], b: &[Q]) -> Q {
    assert_eq!(a.len(), b.len());
    let mut s = Q::zero();
    for (x, y) in a.iter().zip(b) {
        if !x.is_zero() && !y.is_zero() {
            s = &s + &(x * y);
        }
    }
    s
}

pub fn qvec_f64(v: &[f64]) -> QVec {
    v.iter().map(|x| Q::from_f64(*x)).collect()
}

pub fn norm1(a: &[Q]) -> Q {
    let mut s = Q::zero();
    for x in a {
        s = &s + &x.abs();
    }
    s
}

/// Exact affine map `x -> M x + c` over Q.
#[derive(Clone, PartialEq, Eq, Debug)]
pub struct AffQ {
    pub mat: Vec<QVec>, // rows
    pub bias: QVec,
    pub indim: usize,
}

impl AffQ {
    pub fn new(mat: Vec<QVec>, bias: QVec, indim: usize) -> AffQ {
        assert_eq!(mat.len(), bias.len());
        for r in &mat {
            assert_eq!(r.len(), indim);
        }
        AffQ { mat, bias, indim }
    }
    pub fn outdim(&self) -> usize {
        self.mat.len()
    }
    pub fn identity(n: usize) -> AffQ {
        let mut mat = vec![vec![Q::zero(); n]; n];
        for i in 0..n {
            mat[i][i] = Q::one();
        }
        AffQ::new(mat, vec![Q::zero(); n], n)
    }
    pub fn constant(indim: usize, vals: QVec) -> AffQ {
        AffQ::new(vec![vec![Q::zero(); indim]; vals.len()], vals, indim)
    }
    pub fn apply(&self, x: &[Q]) -> QVec {
        assert_eq!(x.len(), self.indim);
        self.mat
            .iter()
            .zip(&self.bias)
            .map(|(r, b)| &qdot(r, x) + b)
            .collect()
    }
    /// self after other
    pub fn compose(&self, other: &AffQ) -> AffQ {
        assert_eq!(self.indim, other.outdim());
        let n = other.indim;
        let mut mat = Vec::with_capacity(self.outdim());
        let mut bias = Vec::with_capacity(self.outdim());
        for (r, b) in self.mat.iter().zip(&self.bias) {
            let mut row = vec![Q::zero(); n];
            for (k, rk) in r.iter().enumerate() {
                if rk.is_zero() {
                    continue;
                }
                for j in 0..n {
                    if !other.mat[k][j].is_zero() {
                        row[j] = &row[j] + &(rk * &other.mat[k][j]);
                    }
                }
            }
            mat.push(row);
            bias.push(&qdot(r, &other.bias) + b);
        }
        AffQ::new(mat, bias, n)
    }
    pub fn zip_with(&self, other: &AffQ, f: impl Fn(&Q, &Q) -> Q) -> AffQ {
        assert_eq!(self.indim, other.indim);
        assert_eq!(self.outdim(), other.outdim());
        let mat = self
            .mat
            .iter()
            .zip(&other.mat)
            .map(|(a, b)| a.iter().zip(b).map(|(x, y)| f(x, y)).collect())
            .collect();
        let bias = self.bias.iter().zip(&other.bias).map(|(x, y)| f(x, y)).collect();
        AffQ::new(mat, bias, self.indim)
    }
    pub fn map(&self, f: impl Fn(&Q) -> Q) -> AffQ {
        AffQ::new(
            self.mat.iter().map(|r| r.iter().map(&f).collect()).collect(),
            self.bias.iter().map(&f).collect(),
            self.indim,
        )
    }
    pub fn max_bits(&self) -> Option<u32> {
        let mut m = 0;
        for r in &self.mat {
            for x in r {
                m = m.max(x.dyadic_bits()?);
            }
        }
        for x in &self.bias {
            m = m.max(x.dyadic_bits()?);
        }
        Some(m)
    }
}

#[cfg(test)]
mod tests {
    use super::*;
    #[test]
    fn roundtrip() {
        for x in [0.0, 1.0, -1.5, 0.1, 1e300, 1e-300, 123456.789, -2.5e-7, f64::MIN_POSITIVE] {
            let q = Q::from_f64(x);
            assert_eq!(q.to_f64(), x, "{x}");
        }
        let a = Q::frac(1, 3);
        let b = Q::frac(1, 6);
        assert_eq!(&a + &b, Q::frac(1, 2));
        assert_eq!(&a * &b, Q::frac(1, 18));
        assert!(a > b);
        assert_eq!((&a - &a).signum(), 0);
        let big = Q::from_f64(1e300);
        let p = &big * &big;
        assert!(p > big);
        assert_eq!(&p / &big, big);
    }
}
