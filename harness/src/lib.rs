pub mod exact;
pub mod gen;
pub mod lp;
pub mod pwl;
pub mod runner;
pub mod treemodel;
pub mod props;
pub mod selftest;
