//! Reference model of piece-wise linear partial functions: a decision structure over exact
//! half-spaces with affine leaves (or "undefined").  It is used three ways:
//!   * as the cell model of a library tree (`Ref::from_afftree`, read from the raw arena),
//!   * as the reference function (built from definitions / reference algebra below),
//!   * as an exact evaluator for boundary inputs (`eval`).

use crate::exact::{AffQ, QVec, Q};
use crate::lp::{self, Row};
use affinitree::linalg::affine::AffFunc;
use affinitree::pwl::afftree::AffTree;

#[derive(Clone, Debug)]
pub enum Ref {
    Leaf { val: Option<AffQ>, tag: usize },
    /// guards form an exact partition of the input space
    Split(Vec<(Vec<Row>, Ref)>),
}

pub const NOTAG: usize = usize::MAX;

pub fn aff_to_q(aff: &AffFunc) -> AffQ {
    let n = aff.indim();
    let mat = aff
        .mat
        .outer_iter()
        .map(|r| r.iter().map(|x| Q::from_f64(*x)).collect())
        .collect();
    let bias = aff.bias.iter().map(|x| Q::from_f64(*x)).collect();
    AffQ::new(mat, bias, n)
}

pub fn q_to_aff(a: &AffQ) -> AffFunc {
    let m = a.outdim();
    let n = a.indim;
    let mut mat = ndarray::Array2::<f64>::zeros((m, n));
    let mut bias = ndarray::Array1::<f64>::zeros(m);
    for i in 0..m {
        for j in 0..n {
            mat[[i, j]] = a.mat[i][j].to_f64();
        }
        bias[i] = a.bias[i].to_f64();
    }
    AffFunc::from_mats(mat, bias)
}

/// guards of a decision with predicate rows `pred` (`a_i x <= b_i`), by label bit mask
pub fn guards_of_predicate(pred: &AffQ) -> Vec<Vec<Row>> {
    let r = pred.outdim();
    let mut out = Vec::with_capacity(1 << r);
    for label in 0..(1usize << r) {
        let mut g = Vec::with_capacity(r);
        for i in 0..r {
            let row = Row::le(pred.mat[i].clone(), pred.bias[i].clone());
            if label & (1 << i) != 0 {
                g.push(row);
            } else {
                g.push(row.negated());
            }
        }
        out.push(g);
    }
    out
}

impl Ref {
    pub fn leaf(a: AffQ) -> Ref {
        Ref::Leaf { val: Some(a), tag: NOTAG }
    }
    pub fn undef() -> Ref {
        Ref::Leaf { val: None, tag: NOTAG }
    }
    /// binary decision `a.x <= b ? yes : no`
    pub fn ite(a: QVec, b: Q, yes: Ref, no: Ref) -> Ref {
        let r = Row::le(a, b);
        Ref::Split(vec![(vec![r.negated()], no), (vec![r], yes)])
    }

    /// Cell model of a library tree, read from the raw arena (children arrays, node functions).
    /// Terminal-ness is taken from "has no children", label semantics from the documentation:
    /// bit i of the label is set iff row i of the predicate is satisfied.
    pub fn from_afftree<const K: usize>(t: &AffTree<K>) -> Ref {
        fn rec<const K: usize>(t: &AffTree<K>, idx: usize) -> Ref {
            let node = t.tree.tree_node(idx).expect("child index must exist in arena");
            let has_children = node.children.iter().any(|c| c.is_some());
            let aff = aff_to_q(&node.value.aff);
            if !has_children {
                return Ref::Leaf { val: Some(aff), tag: idx };
            }
            let guards = guards_of_predicate(&aff);
            let mut parts = Vec::with_capacity(guards.len());
            for (label, g) in guards.into_iter().enumerate() {
                let child = if label < K { node.children[label] } else { None };
                let sub = match child {
                    Some(c) => rec(t, c),
                    None => Ref::Leaf { val: None, tag: idx },
                };
                parts.push((g, sub));
            }
            Ref::Split(parts)
        }
        rec(t, t.tree.get_root_idx())
    }

    pub fn eval(&self, x: &[Q]) -> Option<QVec> {
        self.eval_leaf(x).0.map(|a| a.apply(x))
    }

    /// leaf reached by x: (value, tag)
    pub fn eval_leaf(&self, x: &[Q]) -> (Option<&AffQ>, usize) {
        let mut cur = self;
        loop {
            match cur {
                Ref::Leaf { val, tag } => return (val.as_ref(), *tag),
                Ref::Split(parts) => {
                    let mut hit = None;
                    for (i, (g, _)) in parts.iter().enumerate() {
                        if g.iter().all(|r| r.holds(x)) {
                            assert!(
                                hit.is_none(),
                                "{}: guards of a reference split overlap",
                                lp::ORACLE_ERR
                            );
                            hit = Some(i);
                        }
                    }
                    let i = hit.unwrap_or_else(|| {
                        panic!("{}: guards of a reference split do not cover", lp::ORACLE_ERR)
                    });
                    cur = &parts[i].1;
                }
            }
        }
    }

    pub fn map_leaves(&self, f: &dyn Fn(&AffQ) -> Ref) -> Ref {
        match self {
            Ref::Leaf { val: None, tag } => Ref::Leaf { val: None, tag: *tag },
            Ref::Leaf { val: Some(a), .. } => f(a),
            Ref::Split(parts) => Ref::Split(
                parts.iter().map(|(g, sub)| (g.clone(), sub.map_leaves(f))).collect(),
            ),
        }
    }

    /// `self o f` for affine f (f applied first)
    pub fn substitute(&self, f: &AffQ) -> Ref {
        match self {
            Ref::Leaf { val: None, tag } => Ref::Leaf { val: None, tag: *tag },
            Ref::Leaf { val: Some(a), tag } => Ref::Leaf { val: Some(a.compose(f)), tag: *tag },
            Ref::Split(parts) => Ref::Split(
                parts
                    .iter()
                    .map(|(g, sub)| (g.iter().map(|r| r.substitute(f)).collect(), sub.substitute(f)))
                    .collect(),
            ),
        }
    }

    /// `g o self` (self applied first) — reference composition
    pub fn then(&self, g: &Ref) -> Ref {
        self.map_leaves(&|a| g.substitute(a))
    }

    /// point-wise lifting of a coefficient-wise operator: leaves op(self_leaf, other_leaf)
    pub fn lift2(&self, other: &Ref, op: &dyn Fn(&AffQ, &AffQ) -> AffQ) -> Ref {
        self.map_leaves(&|a| other.map_leaves(&|b| Ref::leaf(op(a, b))))
    }

    /// value `yes` inside the closed polytope `rows`, `no` outside
    pub fn on_polytope(rows: &[Row], yes: Ref, no: Ref) -> Ref {
        let mut cur = yes;
        for r in rows.iter().rev() {
            assert!(!r.strict);
            cur = Ref::Split(vec![(vec![r.negated()], no.clone()), (vec![r.clone()], cur)]);
        }
        cur
    }

    pub fn count_leaves(&self) -> usize {
        match self {
            Ref::Leaf { .. } => 1,
            Ref::Split(p) => p.iter().map(|(_, s)| s.count_leaves()).sum(),
        }
    }

    pub fn max_bits(&self) -> Option<u32> {
        match self {
            Ref::Leaf { val: None, .. } => Some(0),
            Ref::Leaf { val: Some(a), .. } => a.max_bits(),
            Ref::Split(p) => {
                let mut m = 0;
                for (g, s) in p {
                    for r in g {
                        for x in &r.a {
                            m = m.max(x.dyadic_bits()?);
                        }
                        m = m.max(r.b.dyadic_bits()?);
                    }
                    m = m.max(s.max_bits()?);
                }
                Some(m)
            }
        }
    }

    /// all cells (paths) with their rows
    pub fn cells(&self) -> Vec<Cell> {
        fn rec(r: &Ref, rows: &mut Vec<Row>, out: &mut Vec<Cell>) {
            match r {
                Ref::Leaf { val, tag } => out.push(Cell { rows: rows.clone(), val: val.clone(), tag: *tag }),
                Ref::Split(parts) => {
                    for (g, sub) in parts {
                        let l = rows.len();
                        rows.extend(g.iter().cloned());
                        rec(sub, rows, out);
                        rows.truncate(l);
                    }
                }
            }
        }
        let mut out = Vec::new();
        rec(self, &mut Vec::new(), &mut out);
        out
    }
}

#[derive(Clone, Debug)]
pub struct Cell {
    pub rows: Vec<Row>,
    pub val: Option<AffQ>,
    pub tag: usize,
}

#[derive(Clone, Debug)]
pub struct Mismatch {
    pub point: QVec,
    pub lhs: Option<QVec>,
    pub rhs: Option<QVec>,
    pub lhs_tag: usize,
    pub msg: String,
}

#[derive(Clone, Debug, Default)]
pub struct EquivStats {
    pub unstable_skipped: usize,
    pub cells_lhs: usize,
    pub fulldim_lhs: usize,
    pub pairs: usize,
    pub defined_pairs: usize,
}

#[derive(Clone)]
pub struct EquivMode {
    /// None: exact (full-dimensional intersections, exact coefficient equality).
    /// Some(delta): regions must contain a ball of radius delta; coefficients compared with `tol`.
    pub ball: Option<Q>,
    pub tol: f64,
}

impl EquivMode {
    pub fn exact() -> EquivMode {
        EquivMode { ball: None, tol: 0.0 }
    }
    pub fn approx(delta: f64, tol: f64) -> EquivMode {
        EquivMode { ball: Some(Q::from_f64(delta)), tol }
    }
}

/// `region_ok` with a witness of the parent region: in the exact regime a point that is strictly inside
/// the parent region (and the box) and strictly satisfies the rows added since is a proof that the child
/// region is full-dimensional inside the box, so no LP is needed; the answer is the same as `region_ok`'s.
fn region_ok_w(rows: &[Row], from: usize, n: usize, mode: &EquivMode, wit: Option<&QVec>) -> Option<QVec> {
    if mode.ball.is_none() {
        if let Some(w) = wit {
            if rows[from..].iter().all(|r| crate::exact::qdot(&r.a, w) < r.b) {
                return Some(w.clone());
            }
        }
    }
    region_ok(rows, n, mode)
}

fn region_ok(rows: &[Row], n: usize, mode: &EquivMode) -> Option<QVec> {
    match &mode.ball {
        // exact regime: full-dimensional inside the box |x|_inf <= 1e6 (with power-of-two scaled rows a
        // region can exist only at astronomically large coordinates; such regions are not judged)
        None => lp::full_dim_boxed(rows, n),
        Some(d) => {
            // float regime: only regions with a ball inside the box |x| <= 1e6 are compared (almost
            // parallel rounded hyperplanes can enclose regions that exist only at ~1e16)
            if lp::has_ball_boxed(rows, n, d) {
                lp::full_dim(rows, n)
            } else {
                None
            }
        }
    }
}

fn aff_close(a: &AffQ, b: &AffQ, tol: f64) -> bool {
    if a.outdim() != b.outdim() || a.indim != b.indim {
        return false;
    }
    if tol == 0.0 {
        return a == b;
    }
    let close = |x: &Q, y: &Q| {
        let (xf, yf) = (x.to_f64(), y.to_f64());
        (xf - yf).abs() <= tol * (1.0 + xf.abs().max(yf.abs()))
    };
    a.mat.iter().zip(&b.mat).all(|(r, s)| r.iter().zip(s).all(|(x, y)| close(x, y)))
        && a.bias.iter().zip(&b.bias).all(|(x, y)| close(x, y))
}

/// Decide almost-everywhere equality of two PWL partial functions over R^n.
/// Both structures partition R^n (undefinedness is a value), so iterating over the cells of `x`
/// and refining each against `r` covers the whole space.
pub fn equiv(x: &Ref, r: &Ref, n: usize, mode: &EquivMode) -> Result<EquivStats, Mismatch> {
    let mut st = EquivStats::default();
    let mut rows = Vec::new();
    walk_x(x, r, n, mode, &mut rows, None, &mut st)?;
    Ok(st)
}

fn walk_x(
    x: &Ref,
    r: &Ref,
    n: usize,
    mode: &EquivMode,
    rows: &mut Vec<Row>,
    wit: Option<&QVec>,
    st: &mut EquivStats,
) -> Result<(), Mismatch> {
    match x {
        Ref::Leaf { val, tag } => {
            st.cells_lhs += 1;
            st.fulldim_lhs += 1;
            refine(r, n, mode, rows, wit, val.as_ref(), *tag, st)
        }
        Ref::Split(parts) => {
            for (g, sub) in parts {
                let l = rows.len();
                rows.extend(g.iter().cloned());
                if let Some(w) = region_ok_w(rows, l, n, mode, wit) {
                    walk_x(sub, r, n, mode, rows, Some(&w), st)?;
                } else {
                    st.cells_lhs += sub.count_leaves();
                }
                rows.truncate(l);
            }
            Ok(())
        }
    }
}

fn refine(
    r: &Ref,
    n: usize,
    mode: &EquivMode,
    rows: &mut Vec<Row>,
    wit: Option<&QVec>,
    val: Option<&AffQ>,
    tag: usize,
    st: &mut EquivStats,
) -> Result<(), Mismatch> {
    match r {
        Ref::Leaf { val: v2, .. } => {
            st.pairs += 1;
            let ok = match (val, v2.as_ref()) {
                (None, None) => true,
                (Some(a), Some(b)) => {
                    st.defined_pairs += 1;
                    aff_close(a, b, mode.tol)
                }
                _ => false,
            };
            if ok {
                return Ok(());
            }
            let p = lp::full_dim_boxed(rows, n).map(|x| lp::snap_interior(rows, &x)).expect("region was full-dimensional");
            // make sure the two sides really differ at an interior point (affine maps that differ
            // as maps differ on an open dense subset; pick a point where they do)
            let p = pick_differing_point(rows, n, &p, val, v2.as_ref());
            Err(Mismatch {
                lhs: val.map(|a| a.apply(&p)),
                rhs: v2.as_ref().map(|a| a.apply(&p)),
                point: p,
                lhs_tag: tag,
                msg: "tree under test and reference differ on a full-dimensional region".into(),
            })
        }
        Ref::Split(parts) => {
            // float regime: a reference decision that compares (almost) constants within rounding
            // distance - e.g. an argmax tie between two components that are mathematically equal on
            // a whole region - is decided by the last bit of the library's rounding; such regions
            // are "within rounding distance of a breakpoint" everywhere and are not judged
            if let Some(_) = &mode.ball {
                let lim = Q::from_f64(1e-6);
                let tiny = Q::from_f64(1e-9);
                let unstable = parts.iter().any(|(g, _)| g.iter().any(|r| crate::exact::norm1(&r.a) <= tiny && r.b.abs() <= lim));
                if unstable {
                    st.unstable_skipped += 1;
                    return Ok(());
                }
            }
            for (g, sub) in parts {
                let l = rows.len();
                rows.extend(g.iter().cloned());
                if let Some(w) = region_ok_w(rows, l, n, mode, wit) {
                    refine(sub, n, mode, rows, Some(&w), val, tag, st)?;
                }
                rows.truncate(l);
            }
            Ok(())
        }
    }
}

fn pick_differing_point(
    rows: &[Row],
    n: usize,
    p: &QVec,
    a: Option<&AffQ>,
    b: Option<&AffQ>,
) -> QVec {
    let (a, b) = match (a, b) {
        (Some(a), Some(b)) => (a, b),
        _ => return p.clone(),
    };
    if a.outdim() != b.outdim() {
        return p.clone();
    }
    if a.apply(p) != b.apply(p) {
        return p.clone();
    }
    // nudge along each axis by a small dyadic step while staying inside
    for k in [8u32, 12, 16, 24, 32, 48] {
        let step = Q::frac(1, 1) / Q::int(1i64 << k);
        for j in 0..n {
            for s in [1i64, -1] {
                let mut q = p.clone();
                q[j] = &q[j] + &(&step * &Q::int(s));
                if rows.iter().all(|r| r.is_zero_row() || r.slack(&q).is_pos())
                    && a.apply(&q) != b.apply(&q)
                {
                    return q;
                }
            }
        }
    }
    p.clone()
}

// ---------------------------------------------------------------------------------------------
// Raw-arena helpers on library trees

/// closed predicate rows of a node
pub fn node_pred_rows<const K: usize>(t: &AffTree<K>, idx: usize) -> Vec<Row> {
    let a = aff_to_q(&t.tree.tree_node(idx).unwrap().value.aff);
    (0..a.outdim()).map(|i| Row::le(a.mat[i].clone(), a.bias[i].clone())).collect()
}

/// label of `child` below `parent` from the raw children array
pub fn raw_label<const K: usize>(t: &AffTree<K>, parent: usize, child: usize) -> Option<usize> {
    t.tree.tree_node(parent).ok()?.children.iter().position(|c| *c == Some(child))
}

/// exact path conditions (with strictness) from the root to `idx`, built from raw parent links
pub fn path_rows<const K: usize>(t: &AffTree<K>, idx: usize) -> Result<Vec<Row>, String> {
    let mut chain = Vec::new();
    let mut cur = idx;
    let mut guard = 0;
    loop {
        let node = t.tree.tree_node(cur).map_err(|_| format!("node {cur} missing"))?;
        match node.parent {
            None => break,
            Some(p) => {
                let label = raw_label(t, p, cur)
                    .ok_or_else(|| format!("parent {p} does not list child {cur}"))?;
                chain.push((p, label));
                cur = p;
            }
        }
        guard += 1;
        if guard > 100000 {
            return Err("parent chain does not terminate".into());
        }
    }
    chain.reverse();
    let mut rows = Vec::new();
    for (p, label) in chain {
        let pa = aff_to_q(&t.tree.tree_node(p).unwrap().value.aff);
        let g = guards_of_predicate(&pa);
        if label >= g.len() {
            return Err(format!("label {label} at node {p} exceeds 2^rows"));
        }
        rows.extend(g[label].iter().cloned());
    }
    Ok(rows)
}

/// closed version of rows
pub fn closed(rows: &[Row]) -> Vec<Row> {
    rows.iter().map(|r| Row::le(r.a.clone(), r.b.clone())).collect()
}

/// Well-formedness of an AffTree (C04 invariant + C12 link invariants).
pub fn well_formed<const K: usize>(t: &AffTree<K>, expected_out: Option<usize>) -> Result<usize, String> {
    let tree = &t.tree;
    let mut roots = 0;
    let mut out_dim: Option<usize> = expected_out;
    let mut count = 0;
    for (idx, node) in tree.node_iter() {
        count += 1;
        let aff = &node.value.aff;
        if aff.indim() != t.in_dim {
            return Err(format!("node {idx}: function has {} columns, tree in_dim is {}", aff.indim(), t.in_dim));
        }
        if aff.mat.shape()[0] != aff.bias.shape()[0] {
            return Err(format!("node {idx}: matrix/bias row mismatch"));
        }
        let nchild = node.children.iter().filter(|c| c.is_some()).count();
        if node.isleaf != (nchild == 0) {
            return Err(format!("node {idx}: isleaf={} but has {} children", node.isleaf, nchild));
        }
        match node.parent {
            None => {
                roots += 1;
                if idx != tree.get_root_idx() {
                    return Err(format!("node {idx} has no parent but is not the root"));
                }
            }
            Some(p) => {
                let pn = tree.tree_node(p).map_err(|_| format!("node {idx}: parent {p} missing"))?;
                if pn.children.iter().filter(|c| **c == Some(idx)).count() != 1 {
                    return Err(format!("node {idx}: parent {p} does not list it exactly once"));
                }
            }
        }
        for (label, c) in node.children.iter().enumerate() {
            if let Some(c) = c {
                let cn = tree.tree_node(*c).map_err(|_| format!("node {idx}: child {c} missing"))?;
                if cn.parent != Some(idx) {
                    return Err(format!("node {idx}: child {c} (label {label}) has parent {:?}", cn.parent));
                }
            }
        }
        if nchild == 0 {
            match out_dim {
                None => out_dim = Some(aff.outdim()),
                Some(d) => {
                    if aff.outdim() != d {
                        return Err(format!(
                            "terminal {idx} has output dimension {} but {} was expected",
                            aff.outdim(),
                            d
                        ));
                    }
                }
            }
        } else {
            let r = aff.outdim();
            if r < 1 || (1usize << r) > K {
                return Err(format!("decision {idx} has {r} rows, not allowed for K={K}"));
            }
            for (label, c) in node.children.iter().enumerate() {
                if c.is_some() && label >= (1usize << r) {
                    return Err(format!("decision {idx} has a child at unreachable label {label}"));
                }
            }
        }
    }
    if roots != 1 {
        return Err(format!("{roots} parentless nodes"));
    }
    // reachability
    let mut seen = 0;
    let mut stack = vec![tree.get_root_idx()];
    while let Some(i) = stack.pop() {
        seen += 1;
        if seen > count {
            return Err("cycle in child links".into());
        }
        for c in tree.tree_node(i).unwrap().children.iter().flatten() {
            stack.push(*c);
        }
    }
    if seen != count {
        return Err(format!("{count} stored nodes but {seen} reachable from the root"));
    }
    Ok(out_dim.unwrap_or(0))
}

/// Structural dump of a tree for before/after comparisons (bit-exact on coefficients).
#[derive(Clone, Debug, PartialEq, Eq)]
pub struct NodeDump {
    pub idx: usize,
    pub parent: Option<usize>,
    pub children: Vec<Option<usize>>,
    pub isleaf: bool,
    pub shape: (usize, usize),
    pub mat: Vec<u64>,
    pub bias: Vec<u64>,
}

pub fn dump<const K: usize>(t: &AffTree<K>) -> Vec<NodeDump> {
    t.tree
        .node_iter()
        .map(|(idx, n)| NodeDump {
            idx,
            parent: n.parent,
            children: n.children.to_vec(),
            isleaf: n.isleaf,
            shape: (n.value.aff.outdim(), n.value.aff.indim()),
            mat: n.value.aff.mat.iter().map(|x| x.to_bits()).collect(),
            bias: n.value.aff.bias.iter().map(|x| x.to_bits()).collect(),
        })
        .collect()
}

pub fn eval_lib<const K: usize>(t: &AffTree<K>, x: &[Q]) -> Option<Vec<f64>> {
    let xv = crate::gen::arr(&x.iter().map(|q| q.to_f64()).collect::<Vec<f64>>());
    t.evaluate(&xv).map(|a| a.to_vec())
}

impl Ref {
    /// number of guard rows with zero slack on the path taken by x (0 = interior of its cell)
    pub fn boundary_count(&self, x: &[Q]) -> usize {
        let mut cur = self;
        let mut cnt = 0;
        loop {
            match cur {
                Ref::Leaf { .. } => return cnt,
                Ref::Split(parts) => {
                    // a point on a hyperplane of any guard of this split is a boundary input
                    let mut seen: Vec<&Row> = Vec::new();
                    for (g, _) in parts {
                        for r in g {
                            if !r.is_zero_row() && r.slack(x).is_zero() && !seen.iter().any(|s| s.a == r.a || s.a.iter().zip(&r.a).all(|(p, q)| p == &-q)) {
                                seen.push(r);
                                cnt += 1;
                            }
                        }
                    }
                    let next = parts.iter().find(|(g, _)| g.iter().all(|r| r.holds(x)));
                    match next {
                        Some((_, sub)) => cur = sub,
                        None => return cnt,
                    }
                }
            }
        }
    }
}

/// Compare a library tree with a reference function: well-formedness, almost-everywhere equality
/// (exact cell comparison) and exact evaluation at the given inputs.
pub struct CompareOut {
    pub stats: EquivStats,
    pub inputs: usize,
    pub on_boundary: usize,
    pub multi_boundary: usize,
    pub undefined_inputs: usize,
    pub thin_exempt: usize,
    /// inputs not judged because some predicate a.x - b on their path cannot be evaluated exactly in f64
    pub rounding_skipped: usize,
}

/// Can `a.x - b` be evaluated in f64 without any rounding, whatever the order of summation?  True iff all terms
/// a_j x_j and b fit into one 53-bit window (highest set bit of the largest term minus lowest set bit of any
/// term <= 52).  With small dyadic data this always holds; with data far from the origin (x ~ 2^30) and
/// predicates pulled back through several layers it need not.
pub fn dot_is_exact_in_f64(a: &[Q], x: &[Q], b: &Q) -> bool {
    let mut hi = i64::MIN;
    let mut lo = i64::MAX;
    let mut sum_terms = 0;
    let mut see = |t: &Q| -> bool {
        if t.is_zero() {
            return true;
        }
        match t.bit_span() {
            Some((h, l)) => {
                hi = hi.max(h);
                lo = lo.min(l);
                sum_terms += 1;
                true
            }
            None => false,
        }
    };
    for (aj, xj) in a.iter().zip(x) {
        if !see(&(aj * xj)) {
            return false;
        }
    }
    if !see(b) {
        return false;
    }
    // partial sums can carry into a few higher bits
    sum_terms == 0 || (hi + 3 - lo) <= 52
}

impl Ref {
    /// all guard rows of the decisions that the exact evaluation of `x` passes through
    pub fn rows_on_path(&self, x: &[Q]) -> Vec<&Row> {
        let mut out = Vec::new();
        let mut cur = self;
        loop {
            match cur {
                Ref::Leaf { .. } => return out,
                Ref::Split(parts) => {
                    let mut next = None;
                    for (g, sub) in parts {
                        out.extend(g.iter());
                        if next.is_none() && g.iter().all(|r| r.holds(x)) {
                            next = Some(sub);
                        }
                    }
                    match next {
                        Some(s) => cur = s,
                        None => return out,
                    }
                }
            }
        }
    }
}

impl Ref {
    /// Does the path taken by x cross a region that does not contain a ball of radius delta?
    /// (closed versions of the guards, as the library's path polytopes are closed)
    pub fn thin_path(&self, x: &[Q], n: usize, delta: &Q) -> bool {
        let mut cur = self;
        let mut rows: Vec<Row> = Vec::new();
        loop {
            match cur {
                Ref::Leaf { .. } => return false,
                Ref::Split(parts) => match parts.iter().find(|(g, _)| g.iter().all(|r| r.holds(x))) {
                    Some((g, sub)) => {
                        rows.extend(g.iter().map(|r| Row::le(r.a.clone(), r.b.clone())));
                        if !lp::has_ball_boxed(&rows, n, delta) {
                            return true;
                        }
                        cur = sub;
                    }
                    None => return false,
                },
            }
        }
    }
}

pub fn compare_tree<const K: usize>(
    what: &str,
    t: &AffTree<K>,
    reference: &Ref,
    inputs: &[QVec],
    mode: &EquivMode,
) -> Result<CompareOut, (String, serde_json::Value)> {
    compare_tree_opts(what, t, reference, inputs, mode, false)
}

/// `thin_rule`: inputs whose (unpruned) reference path crosses a region without a ball of radius
/// 1e-6 are not judged (only where the property grants "thinner than the LP tolerance").
pub fn compare_tree_opts<const K: usize>(
    what: &str,
    t: &AffTree<K>,
    reference: &Ref,
    inputs: &[QVec],
    mode: &EquivMode,
    thin_rule: bool,
) -> Result<CompareOut, (String, serde_json::Value)> {
    let n = t.in_dim;
    well_formed(t, None).map_err(|e| (format!("{what}: tree is not well-formed: {e}"), serde_json::Value::Null))?;
    let x = Ref::from_afftree(t);
    let stats = match equiv(&x, reference, n, mode) {
        Ok(s) => s,
        Err(m) => {
            let lib = eval_lib(t, &m.point);
            return Err((
                format!("{what}: the tree differs from the reference function on a full-dimensional region"),
                serde_json::json!({
                    "input": m.point.iter().map(|q| q.to_string()).collect::<Vec<_>>(),
                    "input_f64": m.point.iter().map(|q| q.to_f64()).collect::<Vec<_>>(),
                    "tree_cell_value": m.lhs.map(|v| v.iter().map(|q| q.to_string()).collect::<Vec<_>>()),
                    "reference_value": m.rhs.map(|v| v.iter().map(|q| q.to_string()).collect::<Vec<_>>()),
                    "library_evaluate": lib,
                    "tree_leaf_index": m.lhs_tag,
                }),
            ));
        }
    };
    let mut out = CompareOut { stats, inputs: 0, on_boundary: 0, multi_boundary: 0, undefined_inputs: 0, thin_exempt: 0, rounding_skipped: 0 };
    let delta = Q::from_f64(1e-6);
    for p in inputs {
        if thin_rule && reference.thin_path(p, n, &delta) {
            out.thin_exempt += 1;
            continue;
        }
        if mode.tol == 0.0 && !x.rows_on_path(p).iter().all(|r| dot_is_exact_in_f64(&r.a, p, &r.b)) {
            // the library decides a.x - b <= 0 in f64: an input at which that value has to round is not a
            // fair judge of which side of a hyperplane it is on
            out.rounding_skipped += 1;
            continue;
        }
        let exp = reference.eval(p);
        let xv = crate::gen::arr(&p.iter().map(|q| q.to_f64()).collect::<Vec<f64>>());
        let got = crate::runner::guard(|| t.evaluate(&xv)).map_err(|pm| (format!("{what}: evaluate panicked: {pm}"), serde_json::json!({"input": xv.to_vec()})))?;
        out.inputs += 1;
        let bc = reference.boundary_count(p);
        if bc >= 1 {
            out.on_boundary += 1;
        }
        if bc >= 2 {
            out.multi_boundary += 1;
        }
        if exp.is_none() {
            out.undefined_inputs += 1;
        }
        let ok = match (&got, &exp) {
            (None, None) => true,
            (Some(g), Some(e)) => {
                if mode.tol == 0.0 {
                    // exact, or (when the reference value is not representable / the evaluation of
                    // M x + c itself has to round because magnitudes are mixed) within 1e-12 relative to the
                    // size of the terms that are summed: with data far from the origin the terms of one row can be
                    // 1e17 and cancel to 1e10, and f64 then rounds by more than 1e-12 of the *result*
                    let mags: Vec<f64> = match x.eval_leaf(p).0 {
                        Some(leaf) if leaf.outdim() == e.len() => (0..e.len())
                            .map(|i| leaf.mat[i].iter().zip(p.iter()).fold(leaf.bias[i].abs().to_f64(), |acc, (m, xj)| acc + (m * xj).abs().to_f64()))
                            .collect(),
                        _ => e.iter().map(|b| b.to_f64().abs()).collect(),
                    };
                    g.len() == e.len()
                        && g.iter().zip(e).zip(&mags).all(|((a, b), mag)| {
                            a.is_finite() && (&Q::from_f64(*a) == b || (a - b.to_f64()).abs() <= 1e-12 * (1.0 + b.to_f64().abs().max(*mag)))
                        })
                } else {
                    g.len() == e.len() && g.iter().zip(e).all(|(a, b)| (a - b.to_f64()).abs() <= mode.tol * (1.0 + b.to_f64().abs()))
                }
            }
            _ => false,
        };
        if !ok {
            return Err((
                format!("{what}: evaluate() disagrees with the reference at an input (boundary rows hit: {bc})"),
                serde_json::json!({
                    "input": xv.to_vec(),
                    "library_evaluate": got.map(|g| g.to_vec()),
                    "reference_value": exp.map(|v| v.iter().map(|q| q.to_string()).collect::<Vec<_>>()),
                }),
            ));
        }
    }
    Ok(out)
}

impl Ref {
    /// smallest |slack| over all non-degenerate guard rows met on the path of x (None if no rows)
    pub fn min_abs_slack(&self, x: &[Q]) -> Option<Q> {
        let mut cur = self;
        let mut best: Option<Q> = None;
        loop {
            match cur {
                Ref::Leaf { .. } => return best,
                Ref::Split(parts) => {
                    for (g, _) in parts {
                        for r in g {
                            // a comparison of (almost) constants: its margin is the bias itself
                            let n1 = crate::exact::norm1(&r.a);
                            let s = if n1 <= Q::from_f64(1e-9) {
                                r.slack(x).abs()
                            } else {
                                // normalise by the 1-norm so that the value is a distance-like quantity
                                (&r.slack(x).abs()) / &n1
                            };
                            best = Some(match best {
                                None => s,
                                Some(b) => Q::min(&b, &s),
                            });
                        }
                    }
                    match parts.iter().find(|(g, _)| g.iter().all(|r| r.holds(x))) {
                        Some((_, sub)) => cur = sub,
                        None => return best,
                    }
                }
            }
        }
    }
}
