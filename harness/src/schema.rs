//! Predefined trees: generator values, library construction and *textbook* reference definitions
//! (written from the mathematical definitions, not from the library's construction).

use crate::exact::{AffQ, QVec, Q};
use crate::lp::Row;
use crate::pwl::Ref;
use crate::runner::pick;
use affinitree::distill::schema;
use affinitree::pwl::afftree::AffTree;
use proptest::prelude::*;
use serde::{Deserialize, Serialize};

#[derive(Clone, Debug, Serialize, Deserialize, PartialEq)]
pub enum SchemaSpec {
    ReLU { row: u16 },
    Leaky { row: u16, alpha: f64 },
    HardTanh { row: u16, min: f64, width: f64 },
    HardShrink { row: u16, lambda: f64 },
    HardSigmoid { row: u16 },
    Threshold { row: u16, t: f64, v: f64 },
    Argmax,
    ClassChar { clazz: u16 },
    InfNorm { min: Option<f64>, max: Option<f64> },
}

fn unit(dim: usize, i: usize) -> QVec {
    let mut v = vec![Q::zero(); dim];
    v[i] = Q::one();
    v
}

/// identity with component `row` replaced by slope * x_row + offset
fn replace_row(dim: usize, row: usize, slope: Q, offset: Q) -> AffQ {
    let mut a = AffQ::identity(dim);
    a.mat[row][row] = slope;
    a.bias[row] = offset;
    a
}

fn constant1(dim: usize, v: i64) -> AffQ {
    AffQ::constant(dim, vec![Q::int(v)])
}

impl SchemaSpec {
    pub fn name(&self) -> &'static str {
        match self {
            SchemaSpec::ReLU { .. } => "relu",
            SchemaSpec::Leaky { .. } => "leaky_relu",
            SchemaSpec::HardTanh { .. } => "hard_tanh",
            SchemaSpec::HardShrink { .. } => "hard_shrink",
            SchemaSpec::HardSigmoid { .. } => "hard_sigmoid",
            SchemaSpec::Threshold { .. } => "threshold",
            SchemaSpec::Argmax => "argmax",
            SchemaSpec::ClassChar { .. } => "class_char",
            SchemaSpec::InfNorm { .. } => "inf_norm",
        }
    }
    pub fn min_dim(&self) -> usize {
        match self {
            SchemaSpec::Argmax | SchemaSpec::ClassChar { .. } => 2,
            _ => 1,
        }
    }
    pub fn out_dim(&self, dim: usize) -> usize {
        match self {
            SchemaSpec::Argmax | SchemaSpec::ClassChar { .. } | SchemaSpec::InfNorm { .. } => 1,
            _ => dim,
        }
    }
    pub fn is_exact(&self) -> bool {
        !matches!(self, SchemaSpec::HardSigmoid { .. })
    }
    pub fn row(&self, dim: usize) -> Option<usize> {
        match self {
            SchemaSpec::ReLU { row }
            | SchemaSpec::Leaky { row, .. }
            | SchemaSpec::HardTanh { row, .. }
            | SchemaSpec::HardShrink { row, .. }
            | SchemaSpec::HardSigmoid { row }
            | SchemaSpec::Threshold { row, .. } => Some(pick(*row, dim)),
            SchemaSpec::ClassChar { clazz } => Some(pick(*clazz, dim)),
            _ => None,
        }
    }

    /// library tree
    pub fn build(&self, dim: usize) -> AffTree<2> {
        let r = self.row(dim).unwrap_or(0);
        match self {
            SchemaSpec::ReLU { .. } => schema::partial_ReLU(dim, r),
            SchemaSpec::Leaky { alpha, .. } => schema::partial_leaky_ReLU(dim, r, *alpha),
            SchemaSpec::HardTanh { min, width, .. } => schema::partial_hard_tanh(dim, r, *min, *min + width.abs()),
            SchemaSpec::HardShrink { lambda, .. } => schema::partial_hard_shrink(dim, r, *lambda),
            SchemaSpec::HardSigmoid { .. } => schema::partial_hard_sigmoid(dim, r),
            SchemaSpec::Threshold { t, v, .. } => schema::partial_threshold(dim, r, *t, *v),
            SchemaSpec::Argmax => schema::argmax(dim),
            SchemaSpec::ClassChar { .. } => schema::class_characterization(dim, r),
            SchemaSpec::InfNorm { min, max } => schema::inf_norm(dim, *min, *max),
        }
    }

    /// breakpoints of the relevant component (for planting inputs)
    pub fn breakpoints(&self) -> Vec<f64> {
        match self {
            SchemaSpec::ReLU { .. } | SchemaSpec::Leaky { .. } => vec![0.0],
            SchemaSpec::HardTanh { min, width, .. } => vec![*min, *min + width.abs()],
            SchemaSpec::HardShrink { lambda, .. } => {
                if *lambda >= 0.0 {
                    vec![*lambda, -*lambda]
                } else {
                    vec![]
                }
            }
            SchemaSpec::HardSigmoid { .. } => vec![-3.0, 3.0],
            SchemaSpec::Threshold { t, .. } => vec![*t],
            SchemaSpec::InfNorm { min, max } => min.iter().chain(max.iter()).copied().collect(),
            _ => vec![],
        }
    }

    /// textbook definition as a reference structure over R^dim
    pub fn reference(&self, dim: usize) -> Ref {
        let r = self.row(dim).unwrap_or(0);
        let e = unit(dim, r);
        let neg_e: QVec = e.iter().map(|x| -x).collect();
        let id = AffQ::identity(dim);
        let q = Q::from_f64;
        match self {
            // max(0, x)
            SchemaSpec::ReLU { .. } => Ref::Split(vec![
                (vec![Row::le(e.clone(), Q::zero())], Ref::leaf(replace_row(dim, r, Q::zero(), Q::zero()))),
                (vec![Row::lt(neg_e.clone(), Q::zero())], Ref::leaf(id)),
            ]),
            // x if x > 0 else alpha x
            SchemaSpec::Leaky { alpha, .. } => Ref::Split(vec![
                (vec![Row::lt(neg_e.clone(), Q::zero())], Ref::leaf(id)),
                (vec![Row::le(e.clone(), Q::zero())], Ref::leaf(replace_row(dim, r, q(*alpha), Q::zero()))),
            ]),
            // clip(x, min, max)
            SchemaSpec::HardTanh { min, width, .. } => {
                let (lo, hi) = (q(*min), q(*min + width.abs()));
                Ref::Split(vec![
                    (vec![Row::lt(e.clone(), lo.clone())], Ref::leaf(replace_row(dim, r, Q::zero(), lo.clone()))),
                    (vec![Row::le(neg_e.clone(), -&lo), Row::le(e.clone(), hi.clone())], Ref::leaf(id)),
                    (vec![Row::lt(neg_e.clone(), -&hi)], Ref::leaf(replace_row(dim, r, Q::zero(), hi))),
                ])
            }
            // x if |x| > lambda else 0
            SchemaSpec::HardShrink { lambda, .. } => {
                // a negative lambda is not excluded anywhere: |x| > lambda then always holds (identity)
                if *lambda < 0.0 {
                    return Ref::leaf(id);
                }
                let l = q(*lambda);
                Ref::Split(vec![
                    (vec![Row::lt(neg_e.clone(), -&l)], Ref::leaf(id.clone())),
                    (vec![Row::lt(e.clone(), -&l)], Ref::leaf(id)),
                    (vec![Row::le(e.clone(), l.clone()), Row::le(neg_e.clone(), l)], Ref::leaf(replace_row(dim, r, Q::zero(), Q::zero()))),
                ])
            }
            // clip(x/6 + 1/2, 0, 1)
            SchemaSpec::HardSigmoid { .. } => Ref::Split(vec![
                (vec![Row::le(e.clone(), Q::int(-3))], Ref::leaf(replace_row(dim, r, Q::zero(), Q::zero()))),
                (vec![Row::lt(neg_e.clone(), Q::int(3)), Row::lt(e.clone(), Q::int(3))], Ref::leaf(replace_row(dim, r, Q::frac(1, 6), Q::frac(1, 2)))),
                (vec![Row::le(neg_e.clone(), Q::int(-3))], Ref::leaf(replace_row(dim, r, Q::zero(), Q::one()))),
            ]),
            // x if x > t else v
            SchemaSpec::Threshold { t, v, .. } => Ref::Split(vec![
                (vec![Row::lt(neg_e.clone(), -q(*t))], Ref::leaf(id)),
                (vec![Row::le(e.clone(), q(*t))], Ref::leaf(replace_row(dim, r, Q::zero(), q(*v)))),
            ]),
            // first index of a maximal component
            SchemaSpec::Argmax => {
                let mut parts = Vec::new();
                for i in 0..dim {
                    let mut g = Vec::new();
                    for j in 0..dim {
                        if j == i {
                            continue;
                        }
                        // x_j - x_i <= 0 (j > i)   or   x_j - x_i < 0 (j < i)
                        let mut a = vec![Q::zero(); dim];
                        a[j] = Q::one();
                        a[i] = Q::int(-1);
                        g.push(if j < i { Row::lt(a, Q::zero()) } else { Row::le(a, Q::zero()) });
                    }
                    parts.push((g, Ref::leaf(constant1(dim, i as i64))));
                }
                Ref::Split(parts)
            }
            // 1 iff component c is maximal
            SchemaSpec::ClassChar { .. } => {
                let c = r;
                let others: Vec<usize> = (0..dim).filter(|j| *j != c).collect();
                let diff = |j: usize| {
                    let mut a = vec![Q::zero(); dim];
                    a[j] = Q::one();
                    a[c] = Q::int(-1);
                    a
                };
                let mut parts = Vec::new();
                for (pos, &j) in others.iter().enumerate() {
                    // first component (in index order) that exceeds x_c
                    let mut g: Vec<Row> = others[..pos].iter().map(|&k| Row::le(diff(k), Q::zero())).collect();
                    g.push(Row::le(diff(j), Q::zero()).negated());
                    parts.push((g, Ref::leaf(constant1(dim, 0))));
                }
                let g: Vec<Row> = others.iter().map(|&k| Row::le(diff(k), Q::zero())).collect();
                parts.push((g, Ref::leaf(constant1(dim, 1))));
                Ref::Split(parts)
            }
            // 1 iff every component lies within the given bounds
            SchemaSpec::InfNorm { min, max } => {
                let mut cons: Vec<Row> = Vec::new();
                if let Some(m) = min {
                    for i in 0..dim {
                        cons.push(Row::le(unit(dim, i).iter().map(|x| -x).collect(), -q(*m)));
                    }
                }
                if let Some(m) = max {
                    for i in 0..dim {
                        cons.push(Row::le(unit(dim, i), q(*m)));
                    }
                }
                let mut parts = Vec::new();
                for k in 0..cons.len() {
                    let mut g: Vec<Row> = cons[..k].to_vec();
                    g.push(cons[k].negated());
                    parts.push((g, Ref::leaf(constant1(dim, 0))));
                }
                parts.push((cons, Ref::leaf(constant1(dim, 1))));
                Ref::Split(parts)
            }
        }
    }
}

fn nice_param(exotic: bool) -> BoxedStrategy<f64> {
    if !exotic {
        // dyadic only: histories and compositions compute with these values and are judged exactly
        return (-24i32..=24, 0u32..=2).prop_map(|(k, s)| k as f64 / (1u32 << s) as f64).boxed();
    }
    prop_oneof![
        8 => (-24i32..=24, 0u32..=2).prop_map(|(k, s)| k as f64 / (1u32 << s) as f64),
        // non-dyadic values and very unequal magnitudes: the generators store their parameters
        // without computing with them, so the reference (built from the same f64 values) stays exact
        1 => prop_oneof![Just(0.1), Just(0.3), Just(-0.7), Just(1.0 / 3.0), Just(2.5e-7), Just(-1e-4), Just(1e4), Just(123456.789)],
    ]
    .boxed()
}

fn nonneg_param(exotic: bool) -> BoxedStrategy<f64> {
    if !exotic {
        return (0i32..=16).prop_map(|k| k as f64 / 4.0).boxed();
    }
    prop_oneof![
        8 => (0i32..=16).prop_map(|k| k as f64 / 4.0),
        1 => prop_oneof![Just(0.1), Just(0.2), Just(0.6), Just(1e-4), Just(1e4), Just(1e16)],
    ]
    .boxed()
}

pub fn activation_spec() -> impl Strategy<Value = SchemaSpec> {
    activation_spec_x(false)
}

/// `exotic`: also non-dyadic parameters and very unequal magnitudes (only for checks that do not compute
/// with the parameters, i.e. the schema-versus-textbook comparison of C17)
pub fn activation_spec_x(exotic: bool) -> impl Strategy<Value = SchemaSpec> {
    prop_oneof![
        3 => any::<u16>().prop_map(|row| SchemaSpec::ReLU { row }),
        2 => (any::<u16>(), prop_oneof![Just(0.0), Just(0.5), Just(-1.0), Just(2.0), Just(0.125), nice_param(exotic)]).prop_map(|(row, alpha)| SchemaSpec::Leaky { row, alpha }),
        2 => (any::<u16>(), nice_param(exotic), prop_oneof![1 => Just(0.0), 5 => nonneg_param(exotic)]).prop_map(|(row, min, width)| SchemaSpec::HardTanh { row, min, width }),
        2 => (any::<u16>(), nonneg_param(exotic), any::<u8>()).prop_map(move |(row, lambda, s)| SchemaSpec::HardShrink { row, lambda: if exotic && s % 8 == 0 { -lambda } else { lambda } }),
        1 => any::<u16>().prop_map(|row| SchemaSpec::HardSigmoid { row }),
        2 => (any::<u16>(), nice_param(exotic), nice_param(exotic)).prop_map(|(row, t, v)| SchemaSpec::Threshold { row, t, v }),
    ]
}

pub fn head_spec() -> impl Strategy<Value = SchemaSpec> {
    head_spec_x(false)
}

pub fn head_spec_x(exotic: bool) -> impl Strategy<Value = SchemaSpec> {
    prop_oneof![
        2 => Just(SchemaSpec::Argmax),
        2 => any::<u16>().prop_map(|clazz| SchemaSpec::ClassChar { clazz }),
        1 => (prop::option::weighted(0.7, nice_param(exotic)), nonneg_param(exotic), any::<bool>()).prop_map(|(min, w, has_max)| {
            match (min, has_max) {
                (Some(m), true) => SchemaSpec::InfNorm { min: Some(m), max: Some(m + w) },
                (Some(m), false) => SchemaSpec::InfNorm { min: Some(m), max: None },
                (None, _) => SchemaSpec::InfNorm { min: None, max: Some(w - 2.0) },
            }
        }),
    ]
}

pub fn schema_spec() -> impl Strategy<Value = SchemaSpec> {
    prop_oneof![3 => activation_spec(), 2 => head_spec()]
}

pub fn schema_spec_x(exotic: bool) -> impl Strategy<Value = SchemaSpec> {
    prop_oneof![3 => activation_spec_x(exotic), 2 => head_spec_x(exotic)]
}
