//! Operation histories on `AffTree<2>` interpreted against the reference model (DESIGN.md 5.5).
//! Shared by C03, C04, C05, C06 and C11.

use crate::exact::{AffQ, Q};
use crate::gen::*;
use crate::gen_tree::*;
use crate::pwl::Ref;
use crate::runner::*;
use crate::schema::*;
use affinitree::pwl::afftree::AffTree;
use proptest::prelude::*;
use serde::{Deserialize, Serialize};

pub const MAXD: usize = 3;

#[derive(Clone, Debug, Serialize, Deserialize)]
pub enum Ctor {
    New,
    FromAff(Aff),
    FromPoly { p: PolySpec, ft: Aff, ff: Option<Aff> },
    Schema(SchemaSpec),
    Tree(TreeSpec),
}

#[derive(Clone, Debug, Serialize, Deserialize)]
pub enum GSpec {
    Tree(TreeSpec),
    Schema(SchemaSpec),
}

#[derive(Clone, Debug, Serialize, Deserialize)]
pub enum HOp {
    ApplyFunc { a: Aff, out: u8 },
    Compose { prune: bool, g: GSpec, out: u8 },
    Eliminate,
    Reduce,
    /// variant: 0 = &a op &b, 1 = a op &b, 2 = a op b, 3 = &a op b
    Add { b: TreeSpec, variant: u8 },
    Sub { b: TreeSpec, variant: u8 },
    Neg,
    AddAff(Aff),
    SubAff(Aff),
    AffAdd(Aff),
    AffSub(Aff),
}

#[derive(Clone, Debug, Serialize, Deserialize)]
pub struct History {
    pub in_dim: usize,
    pub out0: u8,
    pub ctor: Ctor,
    pub ops: Vec<HOp>,
    pub points: Vec<PointSpec>,
    pub anchors: Vec<Vec<f64>>,
    /// data far from the origin: every anchor of the input space (and with it every hyperplane planted through an
    /// anchor, every test input and the box in which regions are judged) is translated by 2^shift along all axes
    /// (shift in 20..=30; 0 = none).  Biases of order 1e6..1e9 next to coefficients of order 1.
    #[serde(default)]
    pub shift: i8,
}

pub fn project_aff(a: &Aff, out: usize, inn: usize) -> Aff {
    let rows: Vec<Vec<f64>> = (0..out).map(|i| (0..inn).map(|j| a.mat.rows[i % a.mat.rows.len()][j % a.mat.cols]).collect()).collect();
    let bias: Vec<f64> = (0..out).map(|i| a.bias[i % a.bias.len()]).collect();
    Aff { mat: Mat { rows, cols: inn }, bias }
}

fn project_vec(v: &[f64], n: usize) -> Vec<f64> {
    (0..n).map(|j| v[j % v.len()]).collect()
}

pub fn project_tree(t: &TreeSpec, inn: usize, out: usize) -> TreeSpec {
    fn node(n: &TNode, inn: usize, out: usize) -> TNode {
        match n {
            TNode::Leaf(LeafSpec::Fresh(a)) => TNode::Leaf(LeafSpec::Fresh(project_aff(a, out, inn))),
            TNode::Leaf(l) => TNode::Leaf(l.clone()),
            TNode::Dec { rows, kids } => TNode::Dec {
                rows: rows.iter().map(|r| PredRow { a: project_vec(&r.a, inn), b: r.b.clone(), anc: r.anc, scale: r.scale }).collect(),
                kids: kids.iter().map(|k| k.as_ref().map(|k| node(k, inn, out))).collect(),
            },
        }
    }
    TreeSpec {
        in_dim: inn,
        out_dim: out,
        pool: t.pool.iter().map(|a| project_aff(a, out, inn)).collect(),
        anchors: t.anchors.iter().map(|a| project_vec(a, inn)).collect(),
        root: node(&t.root, inn, out),
        order: t.order.clone(),
        junk: t.junk.clone(),
        // leaf scaling is not used in histories: added to unscaled operands it creates rows whose
        // coefficients differ by many orders of magnitude, i.e. LP conditioning problems rather than
        // properties of the pruning code (uniform row scaling of predicates is kept)
        leaf_scale: 0,
    }
}

pub fn project_poly(p: &PolySpec, n: usize) -> PolySpec {
    let pv = |a: &Vec<f64>| project_vec(a, n);
    PolySpec {
        scales: p.scales.clone(),
        dim: n,
        anchors: p.anchors.iter().map(pv).collect(),
        rows: p
            .rows
            .iter()
            .map(|r| match r {
                RowSpec::Random { a, b } => RowSpec::Random { a: pv(a), b: *b },
                RowSpec::EqPair { a, b } => RowSpec::EqPair { a: pv(a), b: *b },
                RowSpec::Through { a, anchor } => RowSpec::Through { a: pv(a), anchor: *anchor },
                RowSpec::Around { a, anchor, slack } => RowSpec::Around { a: pv(a), anchor: *anchor, slack: *slack },
                other => other.clone(),
            })
            .collect(),
    }
}

pub struct HState {
    pub t: AffTree<2>,
    pub r: Ref,
    pub in_dim: usize,
    pub out_dim: usize,
    pub anchors: Vec<Vec<f64>>,
    /// translation of the input-space data (0 = none)
    pub shift: f64,
    /// C06: operands of compose must have both branches at every decision
    pub total_operands_only: bool,
    /// false once the reference became too large to track (only well-formedness is checked then)
    pub tracking: bool,
}

#[derive(Clone, Debug, Default)]
pub struct StepInfo {
    pub desc: String,
    pub skipped: bool,
    pub pruning: bool,
    pub structural: bool,
    pub unpruned_compose: bool,
    pub partial_operand: bool,
}

pub fn dim_of(sel: u8) -> usize {
    1 + (sel as usize % MAXD)
}

pub fn init(h: &History) -> Result<HState, Failure> {
    let n = h.in_dim;
    let t_off = if h.shift > 0 { 2f64.powi(h.shift.clamp(1, 40) as i32) } else { 0.0 };
    let sh = |a: Vec<f64>| -> Vec<f64> { a.into_iter().map(|v| v + t_off).collect() };
    let anchors: Vec<Vec<f64>> = h.anchors.iter().map(|a| sh(project_vec(a, n))).collect();
    if t_off != 0.0 {
        crate::lp::set_box_center(Some(vec![crate::exact::Q::from_f64(t_off); n]));
    }
    let (t, r, out) = match &h.ctor {
        Ctor::New => (must("AffTree::new", || AffTree::<2>::new(n))?, Ref::leaf(AffQ::identity(n)), n),
        Ctor::FromAff(a) => {
            let out = dim_of(h.out0);
            let a = project_aff(a, out, n);
            (must("from_aff", || AffTree::<2>::from_aff(a.lib()))?, Ref::leaf(a.q()), out)
        }
        Ctor::FromPoly { p, ft, ff } => {
            let out = dim_of(h.out0);
            let mut p = project_poly(p, n);
            p.anchors = p.anchors.into_iter().map(sh).collect();
            p.anchors.extend(anchors.iter().cloned());
            if p.rows.is_empty() {
                p.rows.push(RowSpec::Axis { axis: 0, neg: false, b: 1.0 });
            }
            let (pa, _) = p.resolve();
            let ft = project_aff(ft, out, n);
            let ff = ff.as_ref().map(|a| project_aff(a, out, n));
            let ffl = ff.as_ref().map(|a| a.lib());
            let t = must("from_poly", || AffTree::<2>::from_poly(pa.poly(), ft.lib(), ffl.as_ref()))?
                .map_err(|e| Failure::new(format!("from_poly rejected matching dimensions: {e}")))?;
            let no = match &ff {
                Some(a) => Ref::leaf(a.q()),
                None => Ref::undef(),
            };
            (t, Ref::on_polytope(&aff_rows(&pa.q()), Ref::leaf(ft.q()), no), out)
        }
        Ctor::Schema(s) => {
            let dim = n.max(s.min_dim());
            // schema trees have in_dim = dim; histories start in that dimension
            let t = must("schema constructor", || s.build(dim))?;
            if t_off != 0.0 {
                crate::lp::set_box_center(Some(vec![crate::exact::Q::from_f64(t_off); dim]));
            }
            let st = HState { t, r: s.reference(dim), in_dim: dim, out_dim: s.out_dim(dim), anchors: h.anchors.iter().map(|a| sh(project_vec(a, dim))).collect(), shift: t_off, total_operands_only: false, tracking: s.is_exact() };
            return Ok(st);
        }
        Ctor::Tree(ts) => {
            let out = dim_of(h.out0);
            let mut ts = project_tree(ts, n, out);
            ts.anchors = ts.anchors.into_iter().map(sh).collect();
            ts.anchors.extend(anchors.iter().cloned());
            let rn = ts.resolve(&[]);
            (rn.build::<2>(&ts.order, &ts.junk), rn.to_ref(), out)
        }
    };
    Ok(HState { t, r, in_dim: n, out_dim: out, anchors, shift: t_off, total_operands_only: false, tracking: true })
}

fn ref_small(r: &Ref) -> bool {
    r.count_leaves() <= 400 && r.max_bits().map(|b| b <= 50).unwrap_or(false)
}

/// Applies one operation to the library tree and to the reference.
pub fn step(st: &mut HState, op: &HOp) -> Result<StepInfo, Failure> {
    let n = st.in_dim;
    let mut info = StepInfo::default();
    match op {
        HOp::ApplyFunc { a, out } => {
            let a = project_aff(a, dim_of(*out), st.out_dim);
            info.desc = format!("apply_func({}x{})", a.outdim(), a.indim());
            let al = a.lib();
            must(&info.desc, || st.t.apply_func(&al))?;
            if st.tracking {
                st.r = st.r.then(&Ref::leaf(a.q()));
            }
            st.out_dim = a.outdim();
        }
        HOp::Compose { prune, g, out } => {
            let images = if st.tracking { anchor_images(&st.r, &st.anchors) } else { vec![] };
            let (gt, gref, gout, exact) = match g {
                GSpec::Tree(ts) => {
                    let ts = project_tree(ts, st.out_dim, dim_of(*out));
                    let rn = ts.resolve(&images);
                    info.partial_operand = !rn.is_total();
                    info.desc = format!("compose::<{prune},false>(tree with {} nodes{})", rn.count(), if info.partial_operand { ", partial" } else { "" });
                    (rn.build::<2>(&ts.order, &ts.junk), rn.to_ref(), ts.out_dim, true)
                }
                GSpec::Schema(s) => {
                    if st.out_dim < s.min_dim() {
                        info.skipped = true;
                        info.desc = format!("compose({}) skipped: dimension {} too small", s.name(), st.out_dim);
                        return Ok(info);
                    }
                    info.desc = format!("compose::<{prune},false>({:?} in dim {})", s, st.out_dim);
                    (must("schema constructor", || s.build(st.out_dim))?, s.reference(st.out_dim), s.out_dim(st.out_dim), s.is_exact())
                }
            };
            if st.t.num_terminals() * gt.len() > 400 {
                info.skipped = true;
                info.desc = format!("{} skipped: result would be too large", info.desc);
                return Ok(info);
            }
            // an operand that has been pruned before carries cached feasibility states of its own (a block
            // distilled separately, a layer tree that is re-used); chosen by spare bits of `out`
            let mut gt = gt;
            if (*out >> 4) & 3 == 3 {
                let unpruned = gt.clone();
                must("infeasible_elimination on the operand", || gt.infeasible_elimination())?;
                // the root of a pruned tree may keep a single branch (it is never forwarded); where the pipeline
                // needs total operands (C06) such an operand is used unpruned
                let total = gt.tree.node_iter().all(|(_, n)| {
                    let k = n.children.iter().filter(|c| c.is_some()).count();
                    k == 0 || k == 2
                });
                if st.total_operands_only && !total {
                    gt = unpruned;
                } else {
                    info.desc = format!("{} [operand pruned first]", info.desc);
                }
            }
            let gt = gt;
            // the VERBOSE parameter (progress visitor instead of the no-op one) is chosen by spare bits of `out`
            let verbose = (*out >> 2) & 3 == 3;
            if verbose {
                info.desc = info.desc.replacen(",false>", ",true>", 1);
            }
            match (*prune, verbose) {
                (true, false) => must(&info.desc, || st.t.compose::<true, false>(&gt))?,
                (true, true) => must(&info.desc, || st.t.compose::<true, true>(&gt))?,
                (false, false) => must(&info.desc, || st.t.compose::<false, false>(&gt))?,
                (false, true) => must(&info.desc, || st.t.compose::<false, true>(&gt))?,
            };
            if *prune {
                info.pruning = true;
            } else {
                info.unpruned_compose = true;
            }
            info.structural = true;
            if st.tracking {
                st.r = st.r.then(&gref);
                st.tracking = exact && ref_small(&st.r);
            }
            st.out_dim = gout;
        }
        HOp::Eliminate => {
            info.desc = "infeasible_elimination()".into();
            must(&info.desc, || st.t.infeasible_elimination())?;
            info.pruning = true;
            info.structural = true;
        }
        HOp::Reduce => {
            info.desc = "reduce()".into();
            must(&info.desc, || st.t.reduce())?;
            info.structural = true;
        }
        HOp::Add { b, variant } | HOp::Sub { b, variant } => {
            let is_add = matches!(op, HOp::Add { .. });
            let images: Vec<Vec<f64>> = vec![];
            let mut ts = project_tree(b, n, st.out_dim);
            let t_off = st.shift;
            ts.anchors = ts.anchors.into_iter().map(|a| a.into_iter().map(|v| v + t_off).collect()).collect();
            ts.anchors.extend(st.anchors.iter().cloned());
            let rn = ts.resolve(&images);
            info.partial_operand = !rn.is_total();
            let bt = rn.build::<2>(&ts.order, &ts.junk);
            info.desc = format!("tree {} tree({} nodes{}) [variant {}]", if is_add { "+" } else { "-" }, rn.count(), if info.partial_operand { ", partial" } else { "" }, variant % 4);
            if st.t.num_terminals() * bt.len() > 400 {
                info.skipped = true;
                return Ok(info);
            }
            let a = std::mem::replace(&mut st.t, AffTree::<2>::new(n));
            let res = match (is_add, variant % 4) {
                (true, 0) => must(&info.desc, || &a + &bt),
                (true, 1) => must(&info.desc, || a.clone() + &bt),
                (true, 2) => must(&info.desc, || a.clone() + bt.clone()),
                (true, _) => must(&info.desc, || &a + bt.clone()),
                (false, 0) => must(&info.desc, || &a - &bt),
                (false, 1) => must(&info.desc, || a.clone() - &bt),
                (false, 2) => must(&info.desc, || a.clone() - bt.clone()),
                (false, _) => must(&info.desc, || &a - bt.clone()),
            };
            match res {
                Ok(t) => st.t = t,
                Err(f) => {
                    st.t = a;
                    return Err(f);
                }
            }
            info.pruning = true;
            info.structural = true;
            if st.tracking {
                let bref = rn.to_ref();
                st.r = if is_add { st.r.lift2(&bref, &|x, y| x.zip_with(y, |p, q| p + q)) } else { st.r.lift2(&bref, &|x, y| x.zip_with(y, |p, q| p - q)) };
                st.tracking = ref_small(&st.r);
            }
        }
        HOp::Neg => {
            info.desc = "neg".into();
            let a = std::mem::replace(&mut st.t, AffTree::<2>::new(n));
            st.t = must("neg", || -a)?;
            if st.tracking {
                st.r = st.r.map_leaves(&|l| Ref::leaf(l.map(|q| -q)));
            }
        }
        HOp::AddAff(a) | HOp::SubAff(a) | HOp::AffAdd(a) | HOp::AffSub(a) => {
            let a = project_aff(a, st.out_dim, n);
            let al = a.lib();
            let aq = a.q();
            let t0 = std::mem::replace(&mut st.t, AffTree::<2>::new(n));
            let (desc, res, f): (&str, Result<AffTree<2>, Failure>, Box<dyn Fn(&AffQ) -> AffQ>) = match op {
                HOp::AddAff(_) => ("tree + aff", must("tree + aff", || t0 + &al), Box::new(move |l: &AffQ| l.zip_with(&aq, |p, q| p + q))),
                HOp::SubAff(_) => ("tree - aff", must("tree - aff", || t0 - al.clone()), Box::new(move |l: &AffQ| l.zip_with(&aq, |p, q| p - q))),
                HOp::AffAdd(_) => ("aff + tree", must("aff + tree", || &al + t0), Box::new(move |l: &AffQ| aq.zip_with(l, |p, q| p + q))),
                _ => ("aff - tree", must("aff - tree", || al.clone() - t0), Box::new(move |l: &AffQ| aq.zip_with(l, |p, q| p - q))),
            };
            info.desc = desc.into();
            st.t = res?;
            if st.tracking {
                st.r = st.r.map_leaves(&|l| Ref::leaf(f(l)));
                st.tracking = ref_small(&st.r);
            }
        }
    }
    Ok(info)
}

pub fn inputs_of(h: &History, st: &HState) -> Vec<Vec<Q>> {
    h.points
        .iter()
        .map(|p| {
            let mut v = project_vec(&p.resolve(&st.anchors, st.in_dim), st.in_dim);
            if st.shift != 0.0 && matches!(p, PointSpec::Free(_)) {
                for x in v.iter_mut() {
                    *x += st.shift;
                }
            }
            qv(&v)
        })
        .collect()
}

// ---------------------------------------------------------------------------------------------
// strategies

fn tree3(k_partial: u32) -> BoxedStrategy<TreeSpec> {
    (0u32..=2, prop_oneof![1 => Just(100u32), 1 => Just(k_partial)], prop_oneof![1 => Just(30u32), 1 => Just(70u32)])
        .prop_flat_map(|(d, present_pct, pool_pct)| tree_spec(TreeParams { k: 2, in_dim: MAXD, out_dim: MAXD, max_depth: d, present_pct, pool_pct }))
        .boxed()
}

pub fn gspec() -> BoxedStrategy<GSpec> {
    prop_oneof![2 => tree3(75).prop_map(GSpec::Tree), 3 => schema_spec().prop_map(GSpec::Schema)].boxed()
}

pub fn ctor() -> BoxedStrategy<Ctor> {
    prop_oneof![
        2 => Just(Ctor::New),
        1 => aff(MAXD, MAXD).prop_map(Ctor::FromAff),
        2 => (poly_spec(MAXD, 1, 3), aff(MAXD, MAXD), prop::option::weighted(0.5, aff(MAXD, MAXD))).prop_map(|(p, ft, ff)| Ctor::FromPoly { p, ft, ff }),
        2 => schema_spec().prop_map(Ctor::Schema),
        3 => tree3(75).prop_map(Ctor::Tree),
    ]
    .boxed()
}

#[derive(Clone, Copy, Debug)]
pub struct OpWeights {
    pub apply: u32,
    pub compose_unpruned: u32,
    pub compose_pruned: u32,
    pub eliminate: u32,
    pub reduce: u32,
    pub arith_tree: u32,
    pub arith_aff: u32,
}

pub fn hop(w: OpWeights) -> BoxedStrategy<HOp> {
    prop_oneof![
        w.apply => (aff(MAXD, MAXD), any::<u8>()).prop_map(|(a, out)| HOp::ApplyFunc { a, out }),
        w.compose_unpruned => (gspec(), any::<u8>()).prop_map(|(g, out)| HOp::Compose { prune: false, g, out }),
        w.compose_pruned => (gspec(), any::<u8>()).prop_map(|(g, out)| HOp::Compose { prune: true, g, out }),
        w.eliminate => Just(HOp::Eliminate),
        w.reduce => Just(HOp::Reduce),
        w.arith_tree => (tree3(75), any::<u8>(), any::<bool>()).prop_map(|(b, variant, add)| if add { HOp::Add { b, variant } } else { HOp::Sub { b, variant } }),
        w.arith_aff => (aff(MAXD, MAXD), 0u8..5).prop_map(|(a, k)| match k {
            0 => HOp::AddAff(a),
            1 => HOp::SubAff(a),
            2 => HOp::AffAdd(a),
            3 => HOp::AffSub(a),
            _ => HOp::Neg,
        }),
    ]
    .boxed()
}

pub fn history(w: OpWeights, max_ops: usize) -> BoxedStrategy<History> {
    (
        1usize..=MAXD,
        any::<u8>(),
        ctor(),
        proptest::collection::vec(hop(w), 1..=max_ops),
        proptest::collection::vec(point_spec(MAXD), 6..12),
        proptest::collection::vec(lattice(MAXD), 1..=3),
    )
        .prop_flat_map(|(in_dim, out0, ctor, ops, points, anchors)| (Just((in_dim, out0, ctor, ops, points, anchors)), prop_oneof![24 => Just(0i8), 1 => 20i8..=30]))
        .prop_map(|((in_dim, out0, ctor, ops, points, anchors), shift)| History { in_dim, out0, ctor, ops, points, anchors, shift })
        .boxed()
}
