//! Shared proptest strategies.  All random choices go through proptest so that shrinking and
//! replay work; nothing here reads a clock or iterates a hash map.

use crate::exact::{AffQ, QVec, Q};
use affinitree::linalg::affine::{AffFunc, Polytope};
use ndarray::{Array1, Array2};
use proptest::prelude::*;
use serde::{Deserialize, Serialize};

/// small dyadic number k / 2^s
pub fn nice_with(kmax: i32, smax: u32) -> impl Strategy<Value = f64> {
    (-kmax..=kmax, 0..=smax).prop_map(|(k, s)| k as f64 / (1u32 << s) as f64)
}

pub fn nice() -> impl Strategy<Value = f64> {
    nice_with(64, 3)
}

/// nice number, zero with probability ~ 30 %
pub fn nice_sparse() -> BoxedStrategy<f64> {
    prop_oneof![27 => Just(0.0), 3 => Just(-0.0), 70 => nice_with(16, 2)].boxed()
}

pub fn nice_nonzero() -> impl Strategy<Value = f64> {
    nice().prop_map(|x| if x == 0.0 { 1.0 } else { x })
}

pub fn pow2_nonzero() -> impl Strategy<Value = f64> {
    (-3i32..=3, any::<bool>()).prop_map(|(e, neg)| {
        let v = (2f64).powi(e);
        if neg {
            -v
        } else {
            v
        }
    })
}

#[derive(Clone, Debug, Serialize, Deserialize, PartialEq)]
pub struct Mat {
    pub rows: Vec<Vec<f64>>,
    pub cols: usize,
}

impl Mat {
    /// The array handed to the library.  One matrix in four (decided by a hash of its contents, so a case
    /// always maps to the same arrays) is laid out column-major: the same logical matrix, as `w.t().to_owned()`
    /// or a Fortran-ordered .npy file produce it; code that reads raw buffers sees a different order.
    pub fn to_array(&self) -> Array2<f64> {
        use ndarray::ShapeBuilder;
        let mut h: u64 = 0x9E37_79B9_7F4A_7C15 ^ ((self.rows.len() as u64) << 32) ^ self.cols as u64;
        for r in &self.rows {
            for v in r {
                h = (h ^ v.to_bits()).wrapping_mul(0x0000_0100_0000_01B3).rotate_left(23);
            }
        }
        let plain = std::env::var("VERIF_ROW_MAJOR").is_ok();
        let col_major = self.rows.len() >= 2 && self.cols >= 2 && (h >> 17) % 4 == 0 && !plain;
        // one matrix in eight is stored with its column axis reversed in memory (negative stride), as
        // `w.slice(s![.., ..;-1])` or a flipped numpy array produce it: contiguous, but memory order != logical order
        let reversed = self.cols >= 2 && (h >> 29) % 8 == 0 && !plain;
        if reversed {
            let mut a = if col_major { Array2::<f64>::zeros((self.rows.len(), self.cols).f()) } else { Array2::<f64>::zeros((self.rows.len(), self.cols)) };
            for (i, r) in self.rows.iter().enumerate() {
                assert_eq!(r.len(), self.cols);
                for (j, v) in r.iter().enumerate() {
                    a[[i, self.cols - 1 - j]] = *v;
                }
            }
            a.invert_axis(ndarray::Axis(1));
            return a;
        }
        let mut a = if col_major { Array2::<f64>::zeros((self.rows.len(), self.cols).f()) } else { Array2::<f64>::zeros((self.rows.len(), self.cols)) };
        for (i, r) in self.rows.iter().enumerate() {
            assert_eq!(r.len(), self.cols);
            for (j, v) in r.iter().enumerate() {
                a[[i, j]] = *v;
            }
        }
        a
    }
    pub fn q(&self) -> Vec<QVec> {
        self.rows.iter().map(|r| r.iter().map(|x| Q::from_f64(*x)).collect()).collect()
    }
    pub fn nrows(&self) -> usize {
        self.rows.len()
    }
}

#[derive(Clone, Debug, Serialize, Deserialize, PartialEq)]
pub struct Aff {
    pub mat: Mat,
    pub bias: Vec<f64>,
}

impl Aff {
    pub fn lib(&self) -> AffFunc {
        AffFunc::from_mats(self.mat.to_array(), Array1::from_vec(self.bias.clone()))
    }
    pub fn poly(&self) -> Polytope {
        Polytope::from_mats(self.mat.to_array(), Array1::from_vec(self.bias.clone()))
    }
    pub fn q(&self) -> AffQ {
        AffQ::new(self.mat.q(), self.bias.iter().map(|x| Q::from_f64(*x)).collect(), self.mat.cols)
    }
    pub fn outdim(&self) -> usize {
        self.mat.rows.len()
    }
    pub fn indim(&self) -> usize {
        self.mat.cols
    }
    pub fn identity(n: usize) -> Aff {
        let mut rows = vec![vec![0.0; n]; n];
        for i in 0..n {
            rows[i][i] = 1.0;
        }
        Aff { mat: Mat { rows, cols: n }, bias: vec![0.0; n] }
    }
}

pub fn mat_of(out: usize, inn: usize, elem: BoxedStrategy<f64>) -> impl Strategy<Value = Mat> {
    proptest::collection::vec(proptest::collection::vec(elem, inn), out).prop_map(move |rows| Mat { rows, cols: inn })
}

pub fn aff_of(out: usize, inn: usize, elem: BoxedStrategy<f64>) -> impl Strategy<Value = Aff> {
    (mat_of(out, inn, elem.clone()), proptest::collection::vec(elem, out)).prop_map(|(mat, bias)| Aff { mat, bias })
}

pub fn aff(out: usize, inn: usize) -> impl Strategy<Value = Aff> {
    aff_of(out, inn, nice_sparse())
}

pub fn vec_of(n: usize, elem: BoxedStrategy<f64>) -> impl Strategy<Value = Vec<f64>> {
    proptest::collection::vec(elem, n)
}

/// lattice point with coordinates in multiples of 1/4 in [-8, 8]
pub fn lattice(n: usize) -> impl Strategy<Value = Vec<f64>> {
    proptest::collection::vec((-32i32..=32).prop_map(|k| k as f64 / 4.0), n)
}

pub fn qv(v: &[f64]) -> QVec {
    v.iter().map(|x| Q::from_f64(*x)).collect()
}

/// The vector handed to the library as an input point.  One vector in six (decided by a hash of its contents)
/// is stored reversed in memory with stride -1 - the same logical vector, as `v.slice(s![..;-1]).to_owned()`
/// produces it: contiguous, but memory order != logical order.
pub fn arr(v: &[f64]) -> Array1<f64> {
    let mut h: u64 = 0x51_7C_C1_B7_27_22_0A_95 ^ v.len() as u64;
    for x in v {
        h = (h ^ x.to_bits()).wrapping_mul(0x0000_0100_0000_01B3).rotate_left(29);
    }
    if v.len() >= 2 && (h >> 23) % 6 == 0 && std::env::var("VERIF_ROW_MAJOR").is_err() {
        let mut a = Array1::from_vec(v.iter().rev().copied().collect());
        a.invert_axis(ndarray::Axis(0));
        return a;
    }
    Array1::from_vec(v.to_vec())
}

/// exact comparison of a library vector with a reference vector
pub fn vec_eq(lib: &[f64], exp: &[Q]) -> bool {
    lib.len() == exp.len() && lib.iter().zip(exp).all(|(a, b)| a.is_finite() && &Q::from_f64(*a) == b)
}

pub fn aff_eq(lib: &AffFunc, exp: &AffQ) -> bool {
    lib.outdim() == exp.outdim() && lib.indim() == exp.indim && crate::pwl::aff_to_q(lib) == *exp
}

/// signed permutation matrix (exactly orthogonal)
pub fn signed_perm(n: usize) -> impl Strategy<Value = Mat> {
    (Just((0..n).collect::<Vec<usize>>()).prop_shuffle(), proptest::collection::vec(any::<bool>(), n)).prop_map(
        move |(perm, signs)| {
            let mut rows = vec![vec![0.0; n]; n];
            for i in 0..n {
                rows[i][perm[i]] = if signs[i] { -1.0 } else { 1.0 };
            }
            Mat { rows, cols: n }
        },
    )
}

/// Unimodular integer matrix together with its (integer) inverse: product of shears and signed
/// permutations; non-symmetric in general.
pub fn unimodular(n: usize) -> impl Strategy<Value = (Mat, Mat)> {
    let shear = (0..n.max(1), 0..n.max(1), -2i32..=2);
    (signed_perm(n), proptest::collection::vec(shear, 0..5)).prop_map(move |(p, shears)| {
        // M = P * S1 * S2 ...   Minv = ... S2^-1 S1^-1 P^T
        let mul = |a: &Vec<Vec<f64>>, b: &Vec<Vec<f64>>| -> Vec<Vec<f64>> {
            let mut c = vec![vec![0.0; n]; n];
            for i in 0..n {
                for j in 0..n {
                    for k in 0..n {
                        c[i][j] += a[i][k] * b[k][j];
                    }
                }
            }
            c
        };
        let ident = || {
            let mut m = vec![vec![0.0; n]; n];
            for i in 0..n {
                m[i][i] = 1.0;
            }
            m
        };
        let mut m = p.rows.clone();
        let mut pt = vec![vec![0.0; n]; n];
        for i in 0..n {
            for j in 0..n {
                pt[j][i] = p.rows[i][j];
            }
        }
        let mut inv = pt;
        for (i, j, c) in shears {
            if i == j || n < 2 {
                continue;
            }
            let mut s = ident();
            s[i][j] = c as f64;
            let mut si = ident();
            si[i][j] = -(c as f64);
            m = mul(&m, &s);
            inv = mul(&si, &inv);
        }
        (Mat { rows: m, cols: n }, Mat { rows: inv, cols: n })
    })
}

// ---------------------------------------------------------------------------------------------
// Constraint systems built from row classes (DESIGN.md 5.1) with planted anchors (5.2)

#[derive(Clone, Debug, Serialize, Deserialize)]
pub enum RowSpec {
    Random { a: Vec<f64>, b: f64 },
    Dup { of: u16 },
    PosMul { of: u16, f: u8 },
    NegMul { of: u16, f: u8 },
    Parallel { of: u16, b: f64 },
    /// an earlier row with one coefficient multiplied by 1 + 2^-e (e in 20..=44): almost, but not exactly,
    /// parallel - exactly representable because the generated coefficients have few significant bits
    NearParallel { of: u16, j: u16, e: u8 },
    Zero { b: f64 },
    EqPair { a: Vec<f64>, b: f64 },
    Axis { axis: u16, neg: bool, b: f64 },
    Through { a: Vec<f64>, anchor: u16 },
    /// half-space that keeps a margin `slack >= 0` around an anchor point
    Around { a: Vec<f64>, anchor: u16, slack: f64 },
}

#[derive(Clone, Debug, Serialize, Deserialize)]
pub struct PolySpec {
    pub dim: usize,
    pub anchors: Vec<Vec<f64>>,
    pub rows: Vec<RowSpec>,
    /// row i (after resolution) is multiplied by 2^scales[i % len] - the same half-space at a very
    /// different magnitude (exact in f64); empty = no scaling
    #[serde(default)]
    pub scales: Vec<i8>,
}

const FACTORS: [f64; 4] = [2.0, 3.0, 1.5, 0.5];

impl PolySpec {
    /// concrete rows and the class tag of each
    pub fn resolve(&self) -> (Aff, Vec<&'static str>) {
        let n = self.dim;
        let mut rows: Vec<Vec<f64>> = Vec::new();
        let mut bias: Vec<f64> = Vec::new();
        let mut tags = Vec::new();
        let dot = |a: &Vec<f64>, p: &Vec<f64>| -> f64 { crate::exact::qdot(&qv(a), &qv(p)).to_f64() };
        for r in &self.rows {
            match r {
                RowSpec::Random { a, b } => {
                    rows.push(a.clone());
                    bias.push(*b);
                    tags.push("random");
                }
                RowSpec::Dup { of } if !rows.is_empty() => {
                    let i = crate::runner::pick(*of, rows.len());
                    rows.push(rows[i].clone());
                    bias.push(bias[i]);
                    tags.push("dup");
                }
                RowSpec::PosMul { of, f } if !rows.is_empty() => {
                    let i = crate::runner::pick(*of, rows.len());
                    let k = FACTORS[*f as usize % 4];
                    rows.push(rows[i].iter().map(|x| x * k).collect());
                    bias.push(bias[i] * k);
                    tags.push("pos_scaled");
                }
                RowSpec::NegMul { of, f } if !rows.is_empty() => {
                    let i = crate::runner::pick(*of, rows.len());
                    let k = -FACTORS[*f as usize % 4];
                    rows.push(rows[i].iter().map(|x| x * k).collect());
                    bias.push(bias[i] * k);
                    tags.push("neg_scaled");
                }
                RowSpec::Parallel { of, b } if !rows.is_empty() => {
                    let i = crate::runner::pick(*of, rows.len());
                    rows.push(rows[i].clone());
                    bias.push(*b);
                    tags.push("parallel");
                }
                RowSpec::NearParallel { of, j, e } if !rows.is_empty() => {
                    let i = crate::runner::pick(*of, rows.len());
                    let jj = crate::runner::pick(*j, n);
                    let eps = 2f64.powi(-(20 + (*e as i32 % 25)));
                    let mut a = rows[i].clone();
                    if a[jj] != 0.0 {
                        a[jj] *= 1.0 + eps;
                    } else {
                        a[jj] = eps * a.iter().fold(0f64, |m, x| m.max(x.abs())).max(1.0);
                    }
                    rows.push(a);
                    bias.push(bias[i]);
                    tags.push("near_parallel");
                }
                RowSpec::Zero { b } => {
                    rows.push(vec![0.0; n]);
                    bias.push(*b);
                    tags.push(if *b > 0.0 {
                        "zero_pos"
                    } else if *b == 0.0 {
                        "zero_zero"
                    } else {
                        "zero_neg"
                    });
                }
                RowSpec::EqPair { a, b } => {
                    rows.push(a.clone());
                    bias.push(*b);
                    rows.push(a.iter().map(|x| -x).collect());
                    bias.push(-*b);
                    tags.push("eq_pair");
                    tags.push("eq_pair");
                }
                RowSpec::Axis { axis, neg, b } => {
                    let j = crate::runner::pick(*axis, n);
                    let mut a = vec![0.0; n];
                    a[j] = if *neg { -1.0 } else { 1.0 };
                    rows.push(a);
                    bias.push(*b);
                    tags.push("axis");
                }
                RowSpec::Through { a, anchor } if !self.anchors.is_empty() => {
                    let p = &self.anchors[crate::runner::pick(*anchor, self.anchors.len())];
                    bias.push(dot(a, p));
                    rows.push(a.clone());
                    tags.push("through_anchor");
                }
                RowSpec::Around { a, anchor, slack } if !self.anchors.is_empty() => {
                    let p = &self.anchors[crate::runner::pick(*anchor, self.anchors.len())];
                    bias.push(dot(a, p) + slack.abs());
                    rows.push(a.clone());
                    tags.push("around_anchor");
                }
                // references to earlier rows when there are none: fall back to an axis bound
                _ => {
                    let mut a = vec![0.0; n];
                    a[0] = 1.0;
                    rows.push(a);
                    bias.push(1.0);
                    tags.push("axis");
                }
            }
        }
        if !self.scales.is_empty() {
            for (i, (r, b)) in rows.iter_mut().zip(bias.iter_mut()).enumerate() {
                let e = self.scales[i % self.scales.len()];
                if e != 0 {
                    let k = 2f64.powi(e as i32);
                    for v in r.iter_mut() {
                        *v *= k;
                    }
                    *b *= k;
                    tags[i] = "scaled_row";
                }
            }
        }
        (Aff { mat: Mat { rows, cols: n }, bias }, tags)
    }
}

pub fn row_spec(n: usize) -> impl Strategy<Value = RowSpec> {
    row_spec_np(n, false)
}

/// `near_parallel`: also rows that differ from an earlier row by a relative 2^-20 .. 2^-44 in one coefficient.
/// Only for checks of LP-free functions (C15's duplicate removal): an LP solver with tolerance 1e-8 cannot
/// resolve such angles, so every LP-based demand would be inside its tolerance.
pub fn row_spec_np(n: usize, near_parallel: bool) -> BoxedStrategy<RowSpec> {
    let v = move || vec_of(n, nice_sparse());
    if near_parallel {
        return prop_oneof![
            24 => row_spec_np(n, false),
            1 => (any::<u16>(), any::<u16>(), any::<u8>()).prop_map(|(of, j, e)| RowSpec::NearParallel { of, j, e }),
        ]
        .boxed();
    }
    prop_oneof![
        8 => (v(), nice_with(32, 2)).prop_map(|(a, b)| RowSpec::Random { a, b }),
        1 => any::<u16>().prop_map(|of| RowSpec::Dup { of }),
        1 => (any::<u16>(), 0u8..4).prop_map(|(of, f)| RowSpec::PosMul { of, f }),
        1 => (any::<u16>(), 0u8..4).prop_map(|(of, f)| RowSpec::NegMul { of, f }),
        1 => (any::<u16>(), nice_with(32, 2)).prop_map(|(of, b)| RowSpec::Parallel { of, b }),
        1 => prop_oneof![Just(1.0), Just(0.0), Just(-1.0), nice_with(8, 1)].prop_map(|b| RowSpec::Zero { b }),
        1 => (v(), nice_with(32, 2)).prop_map(|(a, b)| RowSpec::EqPair { a, b }),
        3 => (any::<u16>(), any::<bool>(), nice_with(32, 2)).prop_map(|(axis, neg, b)| RowSpec::Axis { axis, neg, b }),
        4 => (v(), any::<u16>()).prop_map(|(a, anchor)| RowSpec::Through { a, anchor }),
        4 => (v(), any::<u16>(), (0i32..=32).prop_map(|k| k as f64 / 4.0)).prop_map(|(a, anchor, slack)| RowSpec::Around { a, anchor, slack }),
    ]
    .boxed()
}

pub fn poly_spec(n: usize, min_rows: usize, max_rows: usize) -> impl Strategy<Value = PolySpec> {
    poly_spec_np(n, min_rows, max_rows, false)
}

pub fn poly_spec_np(n: usize, min_rows: usize, max_rows: usize, near_parallel: bool) -> impl Strategy<Value = PolySpec> {
    (
        proptest::collection::vec(lattice(n), 1..=3),
        proptest::collection::vec(row_spec_np(n, near_parallel), min_rows..=max_rows),
        prop_oneof![4 => Just(Vec::new()), 1 => proptest::collection::vec(prop_oneof![20 => Just(0i8), 9 => -30i8..=30, 1 => prop_oneof![-110i8..=-40, 40i8..=110]], 1..6)],
    )
        .prop_map(move |(anchors, rows, scales)| PolySpec { dim: n, anchors, rows, scales })
}

/// test points: anchors, their lattice neighbours, free lattice points
#[derive(Clone, Debug, Serialize, Deserialize)]
pub enum PointSpec {
    Anchor(u16),
    Neighbour { anchor: u16, axis: u16, step: i8 },
    Free(Vec<f64>),
}

pub fn point_spec(n: usize) -> impl Strategy<Value = PointSpec> {
    prop_oneof![
        2 => any::<u16>().prop_map(PointSpec::Anchor),
        2 => (any::<u16>(), any::<u16>(), prop_oneof![Just(1i8), Just(-1), Just(2), Just(-2), Just(4), Just(-4)])
            .prop_map(|(anchor, axis, step)| PointSpec::Neighbour { anchor, axis, step }),
        3 => lattice(n).prop_map(PointSpec::Free),
    ]
}

impl PointSpec {
    pub fn resolve(&self, anchors: &[Vec<f64>], n: usize) -> Vec<f64> {
        match self {
            PointSpec::Free(v) => v.clone(),
            _ if anchors.is_empty() => vec![0.0; n],
            PointSpec::Anchor(a) => anchors[crate::runner::pick(*a, anchors.len())].clone(),
            PointSpec::Neighbour { anchor, axis, step } => {
                let mut p = anchors[crate::runner::pick(*anchor, anchors.len())].clone();
                let j = crate::runner::pick(*axis, n);
                p[j] += *step as f64 / 4.0;
                p
            }
        }
    }
}

/// size parameter: mostly 1..=small, in ~8 % of the cases small+1..=large (so that behaviour that only
/// depends on larger dimensions / longer structures is visited regularly, at bounded cost)
/// like `sized`, plus a rare "wide" band 8..=12: ndarray switches to unrolled kernels at length 8, and
/// nothing else in the generators reaches the dimensions real networks have
pub fn sized_wide(small: usize, large: usize) -> BoxedStrategy<usize> {
    prop_oneof![39 => sized(small, large), 1 => 8usize..=12].boxed()
}

pub fn sized(small: usize, large: usize) -> BoxedStrategy<usize> {
    if large <= small {
        return (1..=small).boxed();
    }
    prop_oneof![23 => 1..=small, 2 => (small + 1)..=large].boxed()
}
