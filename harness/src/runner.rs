//! Generic driver: seeding, sharding over cores, counting, shrinking, replay, evidence,
//! known findings.

use proptest::strategy::{BoxedStrategy, Strategy, ValueTree};
use proptest::test_runner::{Config, RngAlgorithm, TestRng, TestRunner};
use serde::de::DeserializeOwned;
use serde::Serialize;
use serde_json::{json, Value};
use std::cell::RefCell;
use std::collections::{BTreeMap, BTreeSet};
use std::hash::{Hash, Hasher};
use std::panic::{catch_unwind, AssertUnwindSafe};
use std::path::{Path, PathBuf};
use std::sync::atomic::{AtomicU64, AtomicUsize, Ordering};
use std::sync::Mutex;
use std::time::{Duration, Instant};

#[derive(Clone, Copy, Debug, PartialEq, Eq)]
pub enum Tier {
    Quick,
    Thorough,
}

impl Tier {
    pub fn name(&self) -> &'static str {
        match self {
            Tier::Quick => "quick",
            Tier::Thorough => "thorough",
        }
    }
    pub fn pick<T>(&self, q: T, t: T) -> T {
        match self {
            Tier::Quick => q,
            Tier::Thorough => t,
        }
    }
}

#[derive(Clone, Debug)]
pub struct Failure {
    pub msg: String,
    pub detail: Value,
}

impl Failure {
    pub fn new(msg: impl Into<String>) -> Failure {
        Failure { msg: msg.into(), detail: Value::Null }
    }
    pub fn with(msg: impl Into<String>, detail: Value) -> Failure {
        Failure { msg: msg.into(), detail }
    }
}

pub type CaseResult = Result<(), Failure>;

/// Per-case collector handed to `Property::run`.
#[derive(Default)]
pub struct Ctx {
    pub nontrivial: bool,
    pub classes: BTreeSet<String>,
    pub counters: BTreeMap<String, u64>,
    pub known_hit: BTreeMap<String, u64>,
    pub open_known: BTreeSet<String>,
    /// strict mode: known findings are *not* tolerated (used when replaying a known finding)
    pub strict: bool,
}

impl Ctx {
    pub fn class(&mut self, c: &str) {
        self.classes.insert(c.to_string());
    }
    pub fn class_if(&mut self, cond: bool, c: &str) {
        if cond {
            self.class(c);
        }
    }
    pub fn count(&mut self, k: &str, n: u64) {
        *self.counters.entry(k.to_string()).or_insert(0) += n;
    }
    pub fn set_nontrivial(&mut self, b: bool) {
        self.nontrivial = b;
    }
    /// Returns true when `sig` is a listed open finding (the caller then skips that sub-check and
    /// the search continues); false when it is not listed (the caller must report a failure).
    pub fn known(&mut self, sig: &str) -> bool {
        if !self.strict && self.open_known.contains(sig) {
            *self.known_hit.entry(sig.to_string()).or_insert(0) += 1;
            true
        } else {
            false
        }
    }
}

pub trait Property: Sync {
    type Case: Clone + std::fmt::Debug + Serialize + DeserializeOwned + Send;
    fn id(&self) -> &'static str;
    fn level(&self) -> &'static str {
        "exploration"
    }
    fn rule(&self) -> String;
    fn assumptions(&self) -> Vec<String>;
    fn cases(&self, tier: Tier) -> usize;
    fn strategy(&self, tier: Tier) -> BoxedStrategy<Self::Case>;
    fn run(&self, case: &Self::Case, ctx: &mut Ctx) -> CaseResult;
    /// optional fixed cases run before the generated ones (golden / regression inputs)
    fn fixed_cases(&self) -> Vec<Self::Case> {
        Vec::new()
    }
}

// ---------------------------------------------------------------------------------------------
// panic capture

thread_local! {
    static LAST_PANIC: RefCell<Option<String>> = RefCell::new(None);
}
static LAST_PANIC_GLOBAL: Mutex<Option<String>> = Mutex::new(None);

pub fn last_panic_global() -> Option<String> {
    LAST_PANIC_GLOBAL.lock().ok().and_then(|g| g.clone())
}

/// A `log` sink that formats every record and throws it away.  With it installed at level Debug the
/// library's debug!/warn!/error! statements are *executed* (their arguments evaluated, their Display/Debug
/// impls run), as in an application that has logging switched on; without a logger they are dead code.
struct FormattingSink;

impl log::Log for FormattingSink {
    fn enabled(&self, _: &log::Metadata) -> bool {
        true
    }
    fn log(&self, record: &log::Record) {
        use std::io::Write;
        let _ = write!(std::io::sink(), "{}", record.args());
    }
    fn flush(&self) {}
}

static SINK: FormattingSink = FormattingSink;

pub fn install_quiet_panic_hook() {
    if std::env::var("VERIF_NO_LOG").is_err() && log::set_logger(&SINK).is_ok() {
        // Debug, not Trace: affinitree itself logs at debug..error; at Trace minilp 0.2.2 runs a statistics line
        // (lu.rs:284) whose usize subtraction underflows in builds with overflow checks - a defect of the
        // dependency's logging, not of the code under test
        log::set_max_level(log::LevelFilter::Debug);
    }
    std::panic::set_hook(Box::new(|info| {
        let loc = info.location().map(|l| format!("{}:{}", l.file(), l.line())).unwrap_or_default();
        let msg = if let Some(s) = info.payload().downcast_ref::<&str>() {
            s.to_string()
        } else if let Some(s) = info.payload().downcast_ref::<String>() {
            s.clone()
        } else {
            "<non-string panic>".to_string()
        };
        if let Ok(mut g) = LAST_PANIC_GLOBAL.lock() {
            *g = Some(format!("{msg} @ {loc}"));
        }
        LAST_PANIC.with(|p| *p.borrow_mut() = Some(format!("{msg} @ {loc}")));
    }));
}

/// Runs a library call, converting a panic into `Err(message)`.
pub fn guard<T>(f: impl FnOnce() -> T) -> Result<T, String> {
    match catch_unwind(AssertUnwindSafe(f)) {
        Ok(v) => Ok(v),
        Err(_) => {
            let m = LAST_PANIC.with(|p| p.borrow_mut().take()).unwrap_or_else(|| "panic".into());
            if m.contains(crate::lp::ORACLE_ERR) {
                // oracle errors must not be mistaken for library panics
                std::panic::resume_unwind(Box::new(m));
            }
            Err(m)
        }
    }
}

/// Runs a library call that the property requires to complete.
pub fn must<T>(what: &str, f: impl FnOnce() -> T) -> Result<T, Failure> {
    guard(f).map_err(|m| Failure::new(format!("{what} panicked: {m}")))
}

// ---------------------------------------------------------------------------------------------

fn splitmix(mut x: u64) -> u64 {
    x = x.wrapping_add(0x9E3779B97F4A7C15);
    let mut z = x;
    z = (z ^ (z >> 30)).wrapping_mul(0xBF58476D1CE4E5B9);
    z = (z ^ (z >> 27)).wrapping_mul(0x94D049BB133111EB);
    z ^ (z >> 31)
}

fn str_hash(s: &str, k: u64) -> u64 {
    let mut h = std::collections::hash_map::DefaultHasher::new();
    k.hash(&mut h);
    s.hash(&mut h);
    h.finish()
}

fn shard_rng(seed: u64, id: &str, shard: usize) -> TestRng {
    let base = splitmix(seed ^ str_hash(id, 0x5eed));
    let mut bytes = [0u8; 32];
    let mut s = base ^ (shard as u64).wrapping_mul(0xA24BAED4963EE407);
    for i in 0..4 {
        s = splitmix(s);
        bytes[i * 8..i * 8 + 8].copy_from_slice(&s.to_le_bytes());
    }
    TestRng::from_seed(RngAlgorithm::ChaCha, &bytes)
}

pub fn verif_root() -> PathBuf {
    if let Ok(p) = std::env::var("VERIF_ROOT") {
        return PathBuf::from(p);
    }
    // binary lives in <root>/harness/target/release/vcheck
    let exe = std::env::current_exe().unwrap();
    let mut p = exe.as_path();
    for _ in 0..4 {
        p = p.parent().unwrap_or(Path::new("/verif"));
    }
    if p.join("properties.jsonl").exists() {
        p.to_path_buf()
    } else {
        PathBuf::from("/verif")
    }
}

#[derive(Clone, Debug)]
pub struct KnownFinding {
    pub property: String,
    pub signature: String,
    pub what: String,
    pub replay: Option<String>,
}

pub fn load_known(root: &Path, id: &str) -> Vec<KnownFinding> {
    let p = root.join("known_findings.json");
    let txt = match std::fs::read_to_string(&p) {
        Ok(t) => t,
        Err(_) => return Vec::new(),
    };
    let v: Value = serde_json::from_str(&txt).expect("known_findings.json must be valid JSON");
    let mut out = Vec::new();
    if let Some(arr) = v.get("findings").and_then(|a| a.as_array()) {
        for f in arr {
            if f.get("property").and_then(|x| x.as_str()) == Some(id)
                && f.get("status").and_then(|x| x.as_str()) == Some("open")
            {
                out.push(KnownFinding {
                    property: id.to_string(),
                    signature: f["signature"].as_str().unwrap().to_string(),
                    what: f["what"].as_str().unwrap_or("").to_string(),
                    replay: f.get("replay").and_then(|x| x.as_str()).map(|s| s.to_string()),
                });
            }
        }
    }
    out
}

struct ShardOut<C> {
    evaluations: u64,
    nontrivial_hashes: BTreeSet<(u64, u64)>,
    classes: BTreeMap<String, u64>,
    counters: BTreeMap<String, u64>,
    known_hit: BTreeMap<String, u64>,
    samples: Vec<Value>,
    failure: Option<(C, Failure, u64)>,
    gen_rejects: u64,
    lp_calls: u64,
    certs: u64,
    infra_error: Option<String>,
    slowest_s: f64,
    slowest_classes: String,
}

enum Outcome {
    Pass(Ctx),
    Fail(Failure),
    Infra(String),
}

fn run_one<P: Property>(p: &P, case: &P::Case, open_known: &BTreeSet<String>, strict: bool) -> Outcome {
    let mut ctx = Ctx { open_known: open_known.clone(), strict, ..Default::default() };
    crate::lp::set_box_center(None);
    let r = catch_unwind(AssertUnwindSafe(|| p.run(case, &mut ctx)));
    match r {
        Ok(Ok(())) => Outcome::Pass(ctx),
        Ok(Err(f)) => Outcome::Fail(f),
        Err(payload) => {
            let m = LAST_PANIC
                .with(|p| p.borrow_mut().take())
                .or_else(|| payload.downcast_ref::<String>().cloned())
                .unwrap_or_else(|| "panic".into());
            Outcome::Infra(format!("uncaught panic inside the harness: {m}"))
        }
    }
}

/// Runs one case as the checks do (panic capture, known findings); Err((is_infra, failure)).
pub fn run_case_public<P: Property>(p: &P, case: &P::Case, open_known: &BTreeSet<String>) -> Result<(), (bool, Failure)> {
    match run_one(p, case, open_known, false) {
        Outcome::Pass(_) => Ok(()),
        Outcome::Fail(f) => Err((false, f)),
        Outcome::Infra(m) => Err((true, Failure::new(m))),
    }
}

fn case_hash<C: Serialize>(c: &C) -> (u64, u64) {
    let s = serde_json::to_string(c).unwrap();
    (str_hash(&s, 1), str_hash(&s, 2))
}

pub struct RunOpts {
    pub tier: Tier,
    pub seed: u64,
    pub shards: usize,
    pub cases_override: Option<usize>,
}

static HEARTBEAT: AtomicU64 = AtomicU64::new(0);

fn now_s() -> u64 {
    std::time::SystemTime::now().duration_since(std::time::UNIX_EPOCH).unwrap().as_secs()
}

/// Crash isolation (see `check`): with VERIF_JOURNAL=<dir> every case is written to <dir>/<slot>.json
/// *before* it runs, so that a case that kills the process (stack overflow, abort, SIGSEGV inside the
/// code under test) can be recovered and replayed in a subprocess.
fn journal<C: Serialize>(id: &str, slot: &str, case: &C) {
    if let Ok(dir) = std::env::var("VERIF_JOURNAL") {
        let v = json!({"property": id, "message": "journalled before running (crash isolation)", "detail": Value::Null, "case": case});
        let _ = std::fs::create_dir_all(&dir);
        let _ = std::fs::write(Path::new(&dir).join(format!("{slot}.json")), serde_json::to_string(&v).unwrap());
    }
}

pub fn write_replay<C: Serialize>(root: &Path, id: &str, case: &C, f: &Failure, sub: &str) -> PathBuf {
    let dir = root.join("replays").join(sub).join(id);
    std::fs::create_dir_all(&dir).ok();
    let h = case_hash(case);
    let path = dir.join(format!("{:016x}.json", h.0));
    let v = json!({"property": id, "message": f.msg, "detail": f.detail, "case": case});
    std::fs::write(&path, serde_json::to_string_pretty(&v).unwrap()).expect("write replay");
    path
}

pub fn replay_file<P: Property>(p: &P, path: &Path, strict: bool) -> i32 {
    install_quiet_panic_hook();
    let root = verif_root();
    let txt = std::fs::read_to_string(path).expect("read replay file");
    let v: Value = serde_json::from_str(&txt).expect("replay json");
    let case: P::Case = serde_json::from_value(v["case"].clone()).expect("replay case does not deserialise");
    let open: BTreeSet<String> = load_known(&root, p.id()).into_iter().map(|k| k.signature).collect();
    match run_one(p, &case, &open, strict) {
        Outcome::Pass(ctx) => {
            if std::env::var("VERIF_VERBOSE").is_ok() {
                println!("classes: {:?}; LPs: {}", ctx.classes, crate::lp::LP_CALLS.with(|c| c.get()));
            }
            println!("replay {}: property {} holds on this case", path.display(), p.id());
            0
        }
        Outcome::Fail(f) => {
            println!("replay failure: {}", f.msg);
            if !f.detail.is_null() {
                println!("detail: {}", f.detail);
            }
            println!("VIOLATION property={} replay={}", p.id(), path.display());
            1
        }
        Outcome::Infra(m) => {
            eprintln!("INFRA-ERROR {m}");
            2
        }
    }
}

pub fn run_property<P: Property>(p: &P, opts: &RunOpts) -> i32 {
    install_quiet_panic_hook();
    let start = Instant::now();
    // oracle self-test first: a broken oracle must not produce verdicts
    match catch_unwind(crate::selftest::run_quiet) {
        Ok(Ok(())) => {}
        Ok(Err(e)) => {
            eprintln!("INFRA-ERROR oracle self-test failed: {e}");
            return 2;
        }
        Err(_) => {
            eprintln!("INFRA-ERROR oracle self-test panicked");
            return 2;
        }
    }
    let root = verif_root();
    let id = p.id();
    let known = load_known(&root, id);
    let open: BTreeSet<String> = known.iter().map(|k| k.signature.clone()).collect();

    // 1. known findings: replay their stored reproduction in strict mode
    let mut announced: BTreeSet<String> = BTreeSet::new();
    for k in &known {
        if let Some(rp) = &k.replay {
            let path = root.join(rp);
            match std::fs::read_to_string(&path) {
                Ok(txt) => {
                    let v: Value = serde_json::from_str(&txt).expect("known replay json");
                    let case: P::Case = serde_json::from_value(v["case"].clone()).expect("known replay case");
                    match run_one(p, &case, &open, true) {
                        Outcome::Fail(_) => {
                            announced.insert(k.signature.clone());
                            println!("KNOWN-FINDING: property={} {} [{}]", id, k.what, k.signature)
                        }
                        Outcome::Pass(_) => println!(
                            "note: listed finding {} no longer reproduces from {}",
                            k.signature, rp
                        ),
                        Outcome::Infra(m) => {
                            eprintln!("INFRA-ERROR while replaying known finding: {m}");
                            return 2;
                        }
                    }
                }
                Err(e) => {
                    eprintln!("INFRA-ERROR cannot read {}: {e}", path.display());
                    return 2;
                }
            }
        } else {
            println!("KNOWN-FINDING: property={} {} [{}]", id, k.what, k.signature);
        }
    }

    // 2. regression replays (seconds-long tier of saved inputs) + fixed cases
    let mut fixed: Vec<(String, P::Case)> = p.fixed_cases().into_iter().enumerate().map(|(i, c)| (format!("fixed#{i}"), c)).collect();
    let reg_dir = root.join("replays").join("regress").join(id);
    // VERIF_NO_REGRESS=1 (sensitivity measurements only): skip the saved inputs, so that a seeded change is met by the
    // generated search alone
    let skip_saved = std::env::var("VERIF_NO_REGRESS").is_ok();
    if let (false, Ok(rd)) = (skip_saved, std::fs::read_dir(&reg_dir)) {
        let mut files: Vec<PathBuf> = rd.filter_map(|e| e.ok()).map(|e| e.path()).filter(|p| p.extension().map(|e| e == "json").unwrap_or(false)).collect();
        files.sort();
        for f in files {
            let txt = std::fs::read_to_string(&f).expect("read regress replay");
            let v: Value = serde_json::from_str(&txt).expect("regress replay json");
            match serde_json::from_value::<P::Case>(v["case"].clone()) {
                Ok(c) => fixed.push((f.display().to_string(), c)),
                Err(e) => {
                    eprintln!("INFRA-ERROR regress replay {} does not deserialise: {e}", f.display());
                    return 2;
                }
            }
        }
    }
    let mut total_eval: u64 = 0;
    let mut nontrivial: BTreeSet<(u64, u64)> = BTreeSet::new();
    let mut classes: BTreeMap<String, u64> = BTreeMap::new();
    let mut counters: BTreeMap<String, u64> = BTreeMap::new();
    let mut known_hit: BTreeMap<String, u64> = BTreeMap::new();
    let mut samples: Vec<Value> = Vec::new();
    let n_fixed = fixed.len();
    for (name, c) in &fixed {
        total_eval += 1;
        journal(id, "fixed", c);
        match run_one(p, c, &open, false) {
            Outcome::Pass(ctx) => {
                if ctx.nontrivial {
                    nontrivial.insert(case_hash(c));
                }
                for k in ctx.classes {
                    *classes.entry(k).or_insert(0) += 1;
                }
                for (k, v) in ctx.counters {
                    *counters.entry(k).or_insert(0) += v;
                }
                for (k, v) in ctx.known_hit {
                    *known_hit.entry(k).or_insert(0) += v;
                }
            }
            Outcome::Fail(f) => {
                let path = write_replay(&root, id, c, &f, "found");
                println!("failure on saved case {name}: {}", f.msg);
                if !f.detail.is_null() {
                    println!("detail: {}", f.detail);
                }
                write_evidence(p, opts, &root, start, total_eval, &nontrivial, &classes, &counters, &known_hit, &samples, 1, 0, 0, 0, n_fixed);
                println!("VIOLATION property={} replay={}", id, path.display());
                return 1;
            }
            Outcome::Infra(m) => {
                eprintln!("INFRA-ERROR on saved case {name}: {m}");
                return 2;
            }
        }
    }

    // 3. generated search
    let n_cases = opts.cases_override.unwrap_or_else(|| p.cases(opts.tier));
    let shards = opts.shards.max(1);
    let min_failed = AtomicUsize::new(usize::MAX);
    let outs: Mutex<Vec<(usize, ShardOut<P::Case>)>> = Mutex::new(Vec::new());
    HEARTBEAT.store(now_s(), Ordering::Relaxed);
    let done = std::sync::atomic::AtomicBool::new(false);
    let shard_died = std::sync::atomic::AtomicBool::new(false);
    std::thread::scope(|sc| {
        // watchdog: a hang is reported as exit 2, never as a violation
        sc.spawn(|| {
            let limit: u64 = std::env::var("VERIF_WATCHDOG_S").ok().and_then(|s| s.parse().ok()).unwrap_or(600);
            while !done.load(Ordering::Relaxed) {
                std::thread::sleep(Duration::from_millis(500));
                let hb = HEARTBEAT.load(Ordering::Relaxed);
                if now_s().saturating_sub(hb) > limit {
                    eprintln!("WATCHDOG: no case finished for {limit}s in property {id}; reporting inconclusive (exit 2)");
                    std::process::exit(2);
                }
            }
        });
        let mut handles = Vec::new();
        for shard in 0..shards {
            let per = n_cases / shards + if shard < n_cases % shards { 1 } else { 0 };
            let min_failed = &min_failed;
            let outs = &outs;
            let open = &open;
            let h = std::thread::Builder::new()
                .stack_size(64 << 20)
                .spawn_scoped(sc, move || {
                    install_quiet_panic_hook();
                    let strat = p.strategy(opts.tier);
                    let cfg = Config { failure_persistence: None, max_shrink_iters: 4096, ..Config::default() };
                    let mut runner = TestRunner::new_with_rng(cfg, shard_rng(opts.seed, id, shard));
                    let mut out = ShardOut::<P::Case> {
                        evaluations: 0,
                        nontrivial_hashes: BTreeSet::new(),
                        classes: BTreeMap::new(),
                        counters: BTreeMap::new(),
                        known_hit: BTreeMap::new(),
                        samples: Vec::new(),
                        failure: None,
                        gen_rejects: 0,
                        lp_calls: 0,
                        certs: 0,
                        infra_error: None,
                        slowest_s: 0.0,
                        slowest_classes: String::new(),
                    };
                    for _ in 0..per {
                        if min_failed.load(Ordering::Relaxed) < shard {
                            break;
                        }
                        let mut tree = match strat.new_tree(&mut runner) {
                            Ok(t) => t,
                            Err(_) => {
                                out.gen_rejects += 1;
                                continue;
                            }
                        };
                        let case = tree.current();
                        out.evaluations += 1;
                        HEARTBEAT.store(now_s(), Ordering::Relaxed);
                        let t_case = Instant::now();
                        journal(p.id(), &format!("shard{shard}"), &case);
                        let outcome = run_one(p, &case, open, false);
                        let dt = t_case.elapsed().as_secs_f64();
                        if let Ok(th) = std::env::var("VERIF_SLOW_DUMP") {
                            // diagnostic only: keep every case slower than the threshold under work/slow/
                            if dt > th.parse::<f64>().unwrap_or(10.0) {
                                let f = Failure { msg: format!("slow case {dt:.1}s"), detail: Value::Null };
                                write_replay(&verif_root().join("work"), p.id(), &case, &f, "slow");
                            }
                        }
                        if dt > out.slowest_s {
                            out.slowest_s = dt;
                            if let Outcome::Pass(ctx) = &outcome {
                                out.slowest_classes = ctx.classes.iter().cloned().collect::<Vec<_>>().join(",");
                            }
                        }
                        match outcome {
                            Outcome::Pass(ctx) => {
                                if ctx.nontrivial {
                                    out.nontrivial_hashes.insert(case_hash(&case));
                                    if out.samples.len() < 2 {
                                        out.samples.push(serde_json::to_value(&case).unwrap());
                                    }
                                }
                                for k in ctx.classes {
                                    *out.classes.entry(k).or_insert(0) += 1;
                                }
                                for (k, v) in ctx.counters {
                                    *out.counters.entry(k).or_insert(0) += v;
                                }
                                if !ctx.known_hit.is_empty() && std::env::var("VERIF_DUMP_KNOWN").is_ok() {
                                    // diagnostic only: keep occurrences of listed findings under work/replays/knownhit/
                                    let f = Failure { msg: format!("known finding hit: {:?}", ctx.known_hit.keys().collect::<Vec<_>>()), detail: Value::Null };
                                    write_replay(&verif_root().join("work"), p.id(), &case, &f, "knownhit");
                                }
                                for (k, v) in ctx.known_hit {
                                    *out.known_hit.entry(k).or_insert(0) += v;
                                }
                            }
                            Outcome::Infra(m) => {
                                out.infra_error = Some(format!("{m}\ncase: {}", serde_json::to_string(&case).unwrap_or_default()));
                                min_failed.fetch_min(shard, Ordering::Relaxed);
                                break;
                            }
                            Outcome::Fail(f0) => {
                                min_failed.fetch_min(shard, Ordering::Relaxed);
                                // shrink
                                let mut best = (case, f0);
                                let mut iters: u64 = 0;
                                let t0 = Instant::now();
                                'outer: while iters < 3000 && t0.elapsed() < Duration::from_secs(120) {
                                    if !tree.simplify() {
                                        break;
                                    }
                                    loop {
                                        let c = tree.current();
                                        iters += 1;
                                        HEARTBEAT.store(now_s(), Ordering::Relaxed);
                                        match run_one(p, &c, open, false) {
                                            Outcome::Fail(f) => {
                                                best = (c, f);
                                                break;
                                            }
                                            _ => {
                                                if !tree.complicate() {
                                                    break 'outer;
                                                }
                                            }
                                        }
                                        if iters >= 3000 {
                                            break 'outer;
                                        }
                                    }
                                }
                                out.failure = Some((best.0, best.1, iters));
                                break;
                            }
                        }
                    }
                    out.lp_calls = crate::lp::LP_CALLS.with(|c| c.get());
                    out.certs = crate::lp::CERTS.with(|c| c.get());
                    outs.lock().unwrap().push((shard, out));
                })
                .unwrap();
            handles.push(h);
        }
        for h in handles {
            if h.join().is_err() {
                shard_died.store(true, Ordering::Relaxed);
            }
        }
        done.store(true, Ordering::Relaxed);
    });
    if shard_died.load(Ordering::Relaxed) {
        let m = LAST_PANIC_GLOBAL.lock().ok().and_then(|g| g.clone()).unwrap_or_default();
        eprintln!("INFRA-ERROR a worker thread died outside a case (generator or runner bug): {m}");
        return 2;
    }
    let mut outs = outs.into_inner().unwrap();
    outs.sort_by_key(|(s, _)| *s);
    let mut first_fail: Option<(P::Case, Failure, u64)> = None;
    let mut infra: Option<String> = None;
    let mut rejects = 0;
    let mut lp_calls = 0;
    let mut certs = 0;
    let mut slowest = (0.0f64, String::new());
    for (_, o) in outs {
        if o.slowest_s > slowest.0 {
            slowest = (o.slowest_s, o.slowest_classes.clone());
        }
        total_eval += o.evaluations;
        nontrivial.extend(o.nontrivial_hashes);
        for (k, v) in o.classes {
            *classes.entry(k).or_insert(0) += v;
        }
        for (k, v) in o.counters {
            *counters.entry(k).or_insert(0) += v;
        }
        for (k, v) in o.known_hit {
            *known_hit.entry(k).or_insert(0) += v;
        }
        if samples.len() < 4 {
            samples.extend(o.samples.into_iter().take(4 - samples.len()));
        }
        rejects += o.gen_rejects;
        lp_calls += o.lp_calls;
        certs += o.certs;
        if first_fail.is_none() && infra.is_none() {
            if let Some(m) = o.infra_error {
                infra = Some(m);
            } else if let Some(f) = o.failure {
                first_fail = Some(f);
            }
        }
    }
    if let Some(m) = infra {
        eprintln!("INFRA-ERROR {m}");
        return 2;
    }
    let violations = if first_fail.is_some() { 1 } else { 0 };
    write_evidence(p, opts, &root, start, total_eval, &nontrivial, &classes, &counters, &known_hit, &samples, violations, rejects, lp_calls, certs, n_fixed);
    println!(
        "{} {}: {} cases, {} distinct non-trivial, {} LPs ({} certificates), {:.1}s",
        id,
        opts.tier.name(),
        total_eval,
        nontrivial.len(),
        lp_calls,
        certs,
        start.elapsed().as_secs_f64()
    );
    for (k, v) in &known_hit {
        if !announced.contains(k) {
            // the stored reproduction did not fail, but the generated search met the listed finding
            if let Some(kf) = known.iter().find(|kf| &kf.signature == k) {
                println!("KNOWN-FINDING: property={} {} [{}]", id, kf.what, kf.signature);
            }
        }
        println!("known finding {k}: excluded {v} occurrence(s) from this run");
    }
    if std::env::var("VERIF_VERBOSE").is_ok() {
        println!("slowest case: {:.2}s [{}]", slowest.0, slowest.1);
    }
    if let Some((case, f, iters)) = first_fail {
        let path = write_replay(&root, id, &case, &f, "found");
        println!("failure (after {iters} shrink steps): {}", f.msg);
        if !f.detail.is_null() {
            println!("detail: {}", f.detail);
        }
        println!("VIOLATION property={} replay={}", id, path.display());
        return 1;
    }
    if nontrivial.len() < 2 {
        eprintln!("INFRA-ERROR fewer than 2 distinct non-trivial cases were generated; the run is vacuous");
        return 2;
    }
    0
}

#[allow(clippy::too_many_arguments)]
fn write_evidence<P: Property>(
    p: &P,
    opts: &RunOpts,
    root: &Path,
    start: Instant,
    evaluations: u64,
    nontrivial: &BTreeSet<(u64, u64)>,
    classes: &BTreeMap<String, u64>,
    counters: &BTreeMap<String, u64>,
    known_hit: &BTreeMap<String, u64>,
    samples: &[Value],
    violations: u64,
    rejects: u64,
    lp_calls: u64,
    certs: u64,
    n_fixed: usize,
) {
    let dir = root.join("evidence");
    std::fs::create_dir_all(&dir).ok();
    let samples: Vec<Value> = if samples.is_empty() { vec![json!("no non-trivial case was generated")] } else { samples.to_vec() };
    let v = json!({
        "property_id": p.id(),
        "tier": opts.tier.name(),
        "seed": opts.seed,
        "level": p.level(),
        "wall_s": start.elapsed().as_secs_f64(),
        "violations": violations,
        "coverage": {
            "evaluations": evaluations,
            "distinct_nontrivial": nontrivial.len(),
            "rule": p.rule(),
            "samples": samples,
            "classes": classes,
            "counters": counters,
            "known_findings_excluded": known_hit,
            "generator": {"rejected": rejects},
            "oracle": {"lp_calls": lp_calls, "certificates_checked": certs},
            "saved_cases_replayed": n_fixed,
            "shards": opts.shards,
        },
        "assumptions": p.assumptions(),
    });
    let mut v = v;
    if let Ok(f) = std::env::var("VERIF_FUZZ_STATS") {
        if let Ok(txt) = std::fs::read_to_string(&f) {
            if let Ok(fs) = serde_json::from_str::<Value>(&txt) {
                v["coverage"]["fuzz_campaign"] = fs;
            }
        }
    }
    let path = dir.join(format!("{}.json", p.id()));
    std::fs::write(&path, serde_json::to_string_pretty(&v).unwrap()).expect("write evidence");
}

/// monotone index selection (shrinks towards 0)
pub fn pick(sel: u16, len: usize) -> usize {
    if len == 0 {
        0
    } else {
        ((sel as usize) * len) >> 16
    }
}

pub fn boxed<S: Strategy + 'static>(s: S) -> BoxedStrategy<S::Value> {
    s.boxed()
}
