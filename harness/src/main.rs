use std::path::PathBuf;
use vharness::props;
use vharness::runner::*;

fn usage() -> ! {
    eprintln!("usage: vcheck <ID> --tier quick|thorough [--seed N] [--cases N] [--shards N]\n       vcheck <ID> --replay FILE [--strict]\n       vcheck --selftest");
    std::process::exit(2)
}

macro_rules! dispatch {
    ($id:expr, $f:ident, $($arg:expr),*) => {
        match $id {
            "C01" => $f(&props::c01::C01, $($arg),*),
            "C02" => $f(&props::c02::C02, $($arg),*),
            "C03" => $f(&props::c03::C03, $($arg),*),
            "C04" => $f(&props::c04::C04, $($arg),*),
            "C05" => $f(&props::c05::C05, $($arg),*),
            "C06" => $f(&props::c06::C06, $($arg),*),
            "C07" => $f(&props::c07::C07, $($arg),*),
            "C08" => $f(&props::c08::C08, $($arg),*),
            "C09" => $f(&props::c09::C09, $($arg),*),
            "C10" => $f(&props::c10::C10, $($arg),*),
            "C11" => $f(&props::c11::C11, $($arg),*),
            "C12" => $f(&props::c12::C12, $($arg),*),
            "C13" => $f(&props::c13::C13, $($arg),*),
            "C14" => $f(&props::c14::C14, $($arg),*),
            "C15" => $f(&props::c15::C15, $($arg),*),
            "C16" => $f(&props::c16::C16, $($arg),*),
            "C17" => $f(&props::c17::C17, $($arg),*),
            "C18" => $f(&props::c18::C18, $($arg),*),
            "C19" => $f(&props::c19::C19, $($arg),*),
            other => {
                eprintln!("unknown property id {other}");
                2
            }
        }
    };
}

fn main() {
    let args: Vec<String> = std::env::args().skip(1).collect();
    if args.is_empty() {
        usage();
    }
    if args[0] == "--selftest" {
        std::process::exit(vharness::selftest::run());
    }
    let id = args[0].clone();
    let mut tier = match std::env::var("VERIF_TIER").ok().as_deref() {
        Some("thorough") => Tier::Thorough,
        _ => Tier::Quick,
    };
    let mut seed: u64 = std::env::var("VERIF_SEED").ok().and_then(|s| s.trim().parse::<i64>().ok()).map(|v| v as u64).unwrap_or(0);
    let mut replay: Option<PathBuf> = None;
    let mut replay_raw: Option<PathBuf> = None;
    let mut strict = false;
    let mut cases = None;
    let mut shards = std::thread::available_parallelism().map(|n| n.get()).unwrap_or(16).min(16);
    let mut i = 1;
    while i < args.len() {
        match args[i].as_str() {
            "--tier" => {
                i += 1;
                tier = match args.get(i).map(|s| s.as_str()) {
                    Some("quick") => Tier::Quick,
                    Some("thorough") => Tier::Thorough,
                    _ => usage(),
                };
            }
            "--seed" => {
                i += 1;
                seed = args.get(i).and_then(|s| s.parse::<i64>().ok()).map(|v| v as u64).unwrap_or_else(|| usage());
            }
            "--cases" => {
                i += 1;
                cases = args.get(i).and_then(|s| s.parse().ok());
            }
            "--shards" => {
                i += 1;
                shards = args.get(i).and_then(|s| s.parse().ok()).unwrap_or(16);
            }
            "--replay" => {
                i += 1;
                replay = args.get(i).map(PathBuf::from);
            }
            "--replay-bytes" => {
                i += 1;
                replay_raw = args.get(i).map(PathBuf::from);
            }
            "--fuzz-stats" => {
                i += 1;
                if let Some(f) = args.get(i) {
                    std::env::set_var("VERIF_FUZZ_STATS", f);
                }
            }
            "--strict" => strict = true,
            _ => usage(),
        }
        i += 1;
    }
    // The shard layout is part of the seed -> case mapping, so it is fixed at 16 regardless of the
    // machine unless overridden explicitly.
    let _ = shards;
    let shards = std::env::var("VERIF_SHARDS").ok().and_then(|s| s.parse().ok()).unwrap_or(16usize);
    let code = if let Some(path) = replay_raw {
        let data = std::fs::read(&path).expect("read artifact");
        match id.as_str() {
            "C10" => vharness::fuzzing::replay_artifact(&props::c10::C10, &data),
            "C12" => vharness::fuzzing::replay_artifact(&props::c12::C12, &data),
            "C13" => vharness::fuzzing::replay_artifact(&props::c13::C13, &data),
            "C15" => vharness::fuzzing::replay_artifact(&props::c15::C15, &data),
            "C19" => vharness::fuzzing::replay_artifact(&props::c19::C19, &data),
            "C02" => vharness::fuzzing::replay_artifact(&props::c02::C02, &data),
            "C07" => vharness::fuzzing::replay_artifact(&props::c07::C07, &data),
            "C08" => vharness::fuzzing::replay_artifact(&props::c08::C08, &data),
            "C09" => vharness::fuzzing::replay_artifact(&props::c09::C09, &data),
            "C03" => vharness::fuzzing::replay_artifact_with(&props::c03::C03, &data, |d| vharness::fuzzing::decode_history(d, false)),
            "C04" => vharness::fuzzing::replay_artifact_with(&props::c04::C04, &data, |d| vharness::fuzzing::decode_history(d, false)),
            "C06" => vharness::fuzzing::replay_artifact_with(&props::c06::C06, &data, |d| vharness::fuzzing::decode_history(d, true)),
            other => {
                eprintln!("no byte-level decoder for {other}");
                2
            }
        }
    } else if let Some(path) = replay {
        dispatch!(id.as_str(), replay_file, &path, strict)
    } else {
        let opts = RunOpts { tier, seed, shards, cases_override: cases };
        dispatch!(id.as_str(), run_property, &opts)
    };
    std::process::exit(code);
}
