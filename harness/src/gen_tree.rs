//! Generators for piece-wise linear trees (DESIGN.md 5.3): shapes, partial trees, terminal pools,
//! planted hyperplanes through anchor points, and arena layouts with holes and reused indices.

use crate::exact::{qdot, AffQ, Q};
use crate::gen::*;
use crate::lp::Row;
use crate::pwl::Ref;
use crate::runner::pick;
use affinitree::pwl::afftree::AffTree;
use proptest::prelude::*;
use serde::{Deserialize, Serialize};

#[derive(Clone, Debug, Serialize, Deserialize)]
pub enum BiasSpec {
    Val(f64),
    Through(u16),
}

#[derive(Clone, Debug, Serialize, Deserialize)]
pub struct PredRow {
    pub a: Vec<f64>,
    pub b: BiasSpec,
    /// copy (optionally negate) the row of an ancestor decision and shift its bias: plants paths
    /// that contradict or duplicate an ancestor (exactly empty / lower-dimensional regions)
    #[serde(default)]
    pub anc: Option<(u16, bool, f64)>,
    /// the whole row (coefficients and bias) is multiplied by 2^scale: the predicate is the same
    /// half-space, but absolute tolerances in the library see very different magnitudes
    #[serde(default)]
    pub scale: i8,
}

#[derive(Clone, Debug, Serialize, Deserialize)]
pub enum LeafSpec {
    Pool(u16),
    Fresh(Aff),
    /// pool entry with one coefficient (matrix or bias) changed
    Near { pool: u16, which: u16, delta: f64 },
}

#[derive(Clone, Debug, Serialize, Deserialize)]
pub enum TNode {
    Leaf(LeafSpec),
    Dec { rows: Vec<PredRow>, kids: Vec<Option<TNode>> },
}

#[derive(Clone, Debug, Serialize, Deserialize)]
pub struct TreeSpec {
    pub in_dim: usize,
    pub out_dim: usize,
    pub pool: Vec<Aff>,
    pub anchors: Vec<Vec<f64>>,
    pub root: TNode,
    /// insertion order choices (arena layout)
    pub order: Vec<u16>,
    /// junk nodes inserted and removed during construction (holes / reused indices)
    pub junk: Vec<u8>,
    /// every terminal map is multiplied by 2^leaf_scale (exact in f64)
    #[serde(default)]
    pub leaf_scale: i8,
}

/// concrete (resolved) tree
#[derive(Clone, Debug)]
pub enum RNode {
    Leaf(Aff),
    Dec { pred: Aff, kids: Vec<Option<RNode>> },
}

impl TreeSpec {
    /// Resolve against the anchor list `own anchors ++ extra` (extra = e.g. images of another
    /// tree's anchors, so that hyperplanes pass exactly through reachable intermediate values).
    pub fn resolve(&self, extra: &[Vec<f64>]) -> RNode {
        let mut anchors = self.anchors.clone();
        anchors.extend(extra.iter().filter(|a| a.len() == self.in_dim).cloned());
        self.resolve_node(&self.root, &anchors)
    }

    pub fn all_anchors(&self, extra: &[Vec<f64>]) -> Vec<Vec<f64>> {
        let mut anchors = self.anchors.clone();
        anchors.extend(extra.iter().filter(|a| a.len() == self.in_dim).cloned());
        anchors
    }

    fn leaf_aff(&self, l: &LeafSpec) -> Aff {
        let a = self.leaf_aff_unscaled(l);
        if self.leaf_scale == 0 {
            return a;
        }
        let k = 2f64.powi(self.leaf_scale as i32);
        Aff { mat: Mat { rows: a.mat.rows.iter().map(|r| r.iter().map(|x| x * k).collect()).collect(), cols: a.mat.cols }, bias: a.bias.iter().map(|x| x * k).collect() }
    }

    fn leaf_aff_unscaled(&self, l: &LeafSpec) -> Aff {
        match l {
            LeafSpec::Fresh(a) => a.clone(),
            LeafSpec::Pool(i) => self.pool[pick(*i, self.pool.len())].clone(),
            LeafSpec::Near { pool, which, delta } => {
                let mut a = self.pool[pick(*pool, self.pool.len())].clone();
                let cells = a.outdim() * (a.indim() + 1);
                let c = pick(*which, cells);
                let (r, k) = (c / (a.indim() + 1), c % (a.indim() + 1));
                if *delta == 0.0 && delta.is_sign_negative() {
                    // an equal copy that is not bit-identical: the first zero entry (from position c on) changes sign
                    let cols = a.indim() + 1;
                    for off in 0..cells {
                        let cc = (c + off) % cells;
                        let (rr, kk) = (cc / cols, cc % cols);
                        let v = if kk == a.indim() { &mut a.bias[rr] } else { &mut a.mat.rows[rr][kk] };
                        if *v == 0.0 {
                            *v = -*v;
                            break;
                        }
                    }
                    return a;
                }
                let d = if *delta == 0.0 { 1.0 } else { *delta };
                if k == a.indim() {
                    a.bias[r] += d;
                } else {
                    a.mat.rows[r][k] += d;
                }
                a
            }
        }
    }

    fn resolve_node(&self, n: &TNode, anchors: &[Vec<f64>]) -> RNode {
        self.resolve_node_anc(n, anchors, &mut Vec::new())
    }

    fn resolve_node_anc(&self, n: &TNode, anchors: &[Vec<f64>], ancestors: &mut Vec<(Vec<f64>, f64)>) -> RNode {
        match n {
            TNode::Leaf(l) => RNode::Leaf(self.leaf_aff(l)),
            TNode::Dec { rows, kids } => {
                let mut mat: Vec<Vec<f64>> = Vec::new();
                let mut bias = Vec::new();
                for r in rows {
                    if let (Some((sel, neg, shift)), false) = (&r.anc, ancestors.is_empty()) {
                        let (aa, ab) = &ancestors[pick(*sel, ancestors.len())];
                        let s = if *neg { -1.0 } else { 1.0 };
                        // ancestors are stored unscaled; the copy gets this row's own scale
                        let k = 2f64.powi(r.scale as i32);
                        mat.push(aa.iter().map(|x| x * s * k).collect());
                        bias.push((ab * s + shift) * k);
                        continue;
                    }
                    let b = match &r.b {
                        BiasSpec::Val(v) => *v,
                        BiasSpec::Through(i) => {
                            if anchors.is_empty() {
                                0.0
                            } else {
                                let p = &anchors[pick(*i, anchors.len())];
                                qdot(&qv(&r.a), &qv(p)).to_f64()
                            }
                        }
                    };
                    let k = 2f64.powi(r.scale as i32);
                    mat.push(r.a.iter().map(|x| x * k).collect());
                    bias.push(b * k);
                }
                let depth_before = ancestors.len();
                for ((a, b), r) in mat.iter().zip(&bias).zip(rows) {
                    let k = 2f64.powi(-(r.scale as i32));
                    ancestors.push((a.iter().map(|x| x * k).collect(), *b * k));
                }
                let kids = kids.iter().map(|k| k.as_ref().map(|k| self.resolve_node_anc(k, anchors, ancestors))).collect();
                ancestors.truncate(depth_before);
                RNode::Dec { pred: Aff { mat: Mat { rows: mat, cols: self.in_dim }, bias }, kids }
            }
        }
    }
}

impl RNode {
    /// reference structure straight from the specification (does not touch the library)
    pub fn to_ref(&self) -> Ref {
        match self {
            RNode::Leaf(a) => Ref::leaf(a.q()),
            RNode::Dec { pred, kids } => {
                let guards = crate::pwl::guards_of_predicate(&pred.q());
                let parts = guards
                    .into_iter()
                    .enumerate()
                    .map(|(label, g)| {
                        let sub = match kids.get(label).and_then(|k| k.as_ref()) {
                            Some(k) => k.to_ref(),
                            None => Ref::undef(),
                        };
                        (g, sub)
                    })
                    .collect();
                Ref::Split(parts)
            }
        }
    }

    pub fn count(&self) -> usize {
        match self {
            RNode::Leaf(_) => 1,
            RNode::Dec { kids, .. } => 1 + kids.iter().flatten().map(|k| k.count()).sum::<usize>(),
        }
    }
    pub fn num_decisions(&self) -> usize {
        match self {
            RNode::Leaf(_) => 0,
            RNode::Dec { kids, .. } => 1 + kids.iter().flatten().map(|k| k.num_decisions()).sum::<usize>(),
        }
    }
    pub fn is_total(&self) -> bool {
        match self {
            RNode::Leaf(_) => true,
            RNode::Dec { kids, .. } => kids.iter().all(|k| k.as_ref().map(|k| k.is_total()).unwrap_or(false)),
        }
    }
    pub fn depth(&self) -> usize {
        match self {
            RNode::Leaf(_) => 0,
            RNode::Dec { kids, .. } => 1 + kids.iter().flatten().map(|k| k.depth()).max().unwrap_or(0),
        }
    }
    fn value(&self) -> Aff {
        match self {
            RNode::Leaf(a) => a.clone(),
            RNode::Dec { pred, .. } => pred.clone(),
        }
    }

    /// Build the library tree.  `order` chooses which pending node is inserted next, `junk` plants
    /// temporary nodes: in missing-child slots (removed at the very end -> permanent holes in the
    /// index space) and in pending slots (removed right away -> reused indices).
    pub fn build<const K: usize>(&self, order: &[u16], junk: &[u8]) -> AffTree<K> {
        let mut t = AffTree::<K>::from_aff(self.value().lib());
        let root = t.tree.get_root_idx();
        let mut pending: Vec<(usize, usize, &RNode)> = Vec::new();
        let mut holes: Vec<(usize, usize)> = Vec::new();
        let mut step = 0usize;
        push_kids(&mut t, root, self, &mut pending, &mut holes, step, junk);
        while !pending.is_empty() {
            step += 1;
            let sel = if order.is_empty() { 0 } else { order[step % order.len()] };
            let i = pick(sel, pending.len());
            let (p, l, n) = pending.remove(i);
            // reuse pattern: junk in another pending slot, removed immediately after the insertion
            let mut tmp: Option<(usize, usize)> = None;
            if junk_at(junk, step) % 4 == 1 && !pending.is_empty() {
                let (jp, jl, _) = pending[pick(sel.wrapping_mul(31), pending.len())];
                let d = dummy(&t);
                if t.add_child_node(jp, jl, d).is_ok() {
                    tmp = Some((jp, jl));
                }
            }
            let idx = t.add_child_node(p, l, n.value().lib()).expect("slot must be free");
            if let Some((jp, jl)) = tmp {
                t.tree.remove_child(jp, jl);
            }
            push_kids(&mut t, idx, n, &mut pending, &mut holes, step, junk);
        }
        for (p, l) in holes {
            t.tree.remove_child(p, l);
        }
        t
    }
}

fn junk_at(junk: &[u8], s: usize) -> u8 {
    if junk.is_empty() {
        255
    } else {
        junk[s % junk.len()]
    }
}

fn dummy<const K: usize>(t: &AffTree<K>) -> affinitree::linalg::affine::AffFunc {
    affinitree::linalg::affine::AffFunc::constant(t.in_dim, 7.0)
}

fn push_kids<'a, const K: usize>(
    t: &mut AffTree<K>,
    idx: usize,
    n: &'a RNode,
    pending: &mut Vec<(usize, usize, &'a RNode)>,
    holes: &mut Vec<(usize, usize)>,
    step: usize,
    junk: &[u8],
) {
    if let RNode::Dec { kids, .. } = n {
        for (label, k) in kids.iter().enumerate() {
            if label >= K {
                break;
            }
            match k {
                Some(k) => pending.push((idx, label, k)),
                None => {
                    // missing child: maybe plant a junk node that is removed at the end
                    if junk_at(junk, step + label) % 3 == 0 {
                        let d = dummy(t);
                        if t.add_child_node(idx, label, d).is_ok() {
                            holes.push((idx, label));
                        }
                    }
                }
            }
        }
    }
}

// ---------------------------------------------------------------------------------------------
// strategies

#[derive(Clone, Copy, Debug)]
pub struct TreeParams {
    pub k: usize,
    pub in_dim: usize,
    pub out_dim: usize,
    pub max_depth: u32,
    /// probability (in %) that a child is present
    pub present_pct: u32,
    pub pool_pct: u32,
}

fn pred_row(n: usize) -> impl Strategy<Value = PredRow> {
    let a = vec_of(n, nice_sparse()).prop_map(|mut a| {
        if a.iter().all(|x| *x == 0.0) {
            a[0] = 1.0;
        }
        a
    });
    // occasionally a genuinely zero row (degenerate predicate)
    let a = prop_oneof![19 => a, 1 => Just(vec![0.0; n])];
    (
        a,
        prop_oneof![1 => nice_with(32, 2).prop_map(BiasSpec::Val), 1 => any::<u16>().prop_map(BiasSpec::Through)],
        prop::option::weighted(0.2, (any::<u16>(), any::<bool>(), prop_oneof![2 => Just(0.0), 1 => Just(1.0), 1 => Just(-1.0), 1 => nice_with(8, 1)])),
        scale_exp(),
    )
        .prop_map(|(a, b, anc, scale)| PredRow { a, b, anc, scale })
}

fn leaf_spec(out: usize, inn: usize, pool_pct: u32) -> impl Strategy<Value = LeafSpec> {
    prop_oneof![
        pool_pct => any::<u16>().prop_map(LeafSpec::Pool),
        (pool_pct / 4 + 1) => (any::<u16>(), any::<u16>(), prop_oneof![9 => nice_nonzero().boxed(), 1 => Just(-0.0f64).boxed()]).prop_map(|(pool, which, delta)| LeafSpec::Near { pool, which, delta }),
        (100 - pool_pct + 1) => aff(out, inn).prop_map(LeafSpec::Fresh),
    ]
}

pub fn tnode(p: TreeParams) -> BoxedStrategy<TNode> {
    // explicit depth-indexed construction (prop_recursive yields mostly tiny trees):
    // level d is a leaf with probability 1/4 (1 at d = 0), otherwise a decision over level d-1
    let leaf = leaf_spec(p.out_dim, p.in_dim, p.pool_pct).prop_map(TNode::Leaf).boxed();
    let present = (p.present_pct as f64 / 100.0).min(0.999_999);
    let max_rows = if p.k >= 8 { 3usize } else if p.k >= 4 { 2 } else { 1 };
    let mut level: BoxedStrategy<TNode> = leaf.clone();
    for d in 1..=p.max_depth {
        let inner = level.clone();
        let dec = (1..=max_rows)
            .prop_flat_map(move |r| {
                (
                    proptest::collection::vec(pred_row(p.in_dim), r),
                    proptest::collection::vec(prop::option::weighted(present, inner.clone()), 1 << r),
                )
            })
            .prop_map(|(rows, kids)| {
                // a decision needs at least one child, otherwise it is a (mis-shaped) terminal
                let mut kids = kids;
                if kids.iter().all(|k| k.is_none()) {
                    kids[0] = Some(TNode::Leaf(LeafSpec::Pool(0)));
                }
                TNode::Dec { rows, kids }
            });
        // the top level is always a decision so that max_depth >= 1 means "has a decision"
        level = if d == p.max_depth { dec.boxed() } else { prop_oneof![1 => leaf.clone(), 3 => dec].boxed() };
    }
    level
}

/// exponent of a power-of-two scaling: 0 in 83 % of the cases, uniform in [-36, 36] in 14 %, and in 3 % an
/// extreme one (|e| in 40..=110: magnitudes far below f64::EPSILON and far above 1e16, where "treat as zero"
/// and "close enough" shortcuts written with absolute epsilons go wrong)
pub fn scale_exp() -> BoxedStrategy<i8> {
    prop_oneof![50 => Just(0i8), 8 => -36i8..=36, 1 => 40i8..=110, 1 => -110i8..=-40].boxed()
}

pub fn tree_spec(p: TreeParams) -> BoxedStrategy<TreeSpec> {
    (
        proptest::collection::vec(aff(p.out_dim, p.in_dim), 2..=3),
        proptest::collection::vec(lattice(p.in_dim), 1..=3),
        tnode(p),
        proptest::collection::vec(any::<u16>(), 0..6),
        proptest::collection::vec(any::<u8>(), 0..6),
        prop_oneof![36 => Just(0i8), 3 => -24i8..=24, 1 => prop_oneof![Just(-60i8), Just(-75), Just(60)]],
    )
        .prop_map(move |(pool, anchors, root, order, junk, leaf_scale)| TreeSpec { in_dim: p.in_dim, out_dim: p.out_dim, pool, anchors, root, order, junk, leaf_scale })
        .boxed()
}

/// exact image of a point under an affine map given as generator value
pub fn image(a: &Aff, x: &[f64]) -> Vec<f64> {
    a.q().apply(&qv(x)).iter().map(|v| v.to_f64()).collect()
}

/// images of anchors under a reference function (only where defined and exactly representable)
pub fn anchor_images(r: &Ref, anchors: &[Vec<f64>]) -> Vec<Vec<f64>> {
    let mut out = Vec::new();
    for a in anchors {
        if let Some(v) = r.eval(&qv(a)) {
            if v.iter().all(|q| q.is_exact_f64() && q.dyadic_bits().unwrap_or(99) <= 30) {
                out.push(v.iter().map(|q| q.to_f64()).collect());
            }
        }
    }
    out
}

/// rows (closed) of a polytope given as `Aff`
pub fn aff_rows(a: &AffQ) -> Vec<Row> {
    (0..a.outdim()).map(|i| Row::le(a.mat[i].clone(), a.bias[i].clone())).collect()
}

pub fn qpoint(x: &[f64]) -> Vec<Q> {
    qv(x)
}
