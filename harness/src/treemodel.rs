//! Reference model of `Tree<N, K>` and reference traversals (Appendix A of DESIGN.md).

use affinitree::tree::graph::Tree;
use std::collections::{BTreeMap, VecDeque};

#[derive(Clone, Debug, PartialEq, Eq)]
pub struct MNode {
    pub value: i64,
    pub parent: Option<usize>,
    pub children: Vec<Option<usize>>,
}

#[derive(Clone, Debug, PartialEq, Eq)]
pub struct Model {
    pub k: usize,
    pub nodes: BTreeMap<usize, MNode>,
    pub root: usize,
    /// indices that were live once and are not any more
    pub dead: Vec<usize>,
}

#[derive(Clone, Debug, PartialEq, Eq)]
pub enum MErr {
    InvalidIndex,
    MissingChild,
    ChildExists,
    RootNode,
    /// documented or domain panic (assert / out-of-domain argument)
    Panic,
}

impl Model {
    pub fn new(k: usize, root: usize, value: i64) -> Model {
        let mut nodes = BTreeMap::new();
        nodes.insert(root, MNode { value, parent: None, children: vec![None; k] });
        Model { k, nodes, root, dead: Vec::new() }
    }
    pub fn live(&self) -> Vec<usize> {
        self.nodes.keys().copied().collect()
    }
    pub fn num_children(&self, i: usize) -> usize {
        self.nodes[&i].children.iter().filter(|c| c.is_some()).count()
    }
    pub fn descendants(&self, i: usize) -> Vec<usize> {
        let mut out = Vec::new();
        let mut st: Vec<usize> = self.nodes[&i].children.iter().flatten().copied().collect();
        while let Some(c) = st.pop() {
            out.push(c);
            st.extend(self.nodes[&c].children.iter().flatten().copied());
        }
        out
    }
    /// pre-check for add_child: Ok(()) when the library must insert a node
    pub fn can_add(&self, parent: usize, label: usize) -> Result<(), MErr> {
        let p = self.nodes.get(&parent).ok_or(MErr::InvalidIndex)?;
        if p.children[label].is_some() {
            return Err(MErr::ChildExists);
        }
        Ok(())
    }
    pub fn add(&mut self, parent: usize, label: usize, idx: usize, value: i64) {
        self.nodes.get_mut(&parent).unwrap().children[label] = Some(idx);
        self.nodes.insert(idx, MNode { value, parent: Some(parent), children: vec![None; self.k] });
        self.dead.retain(|d| *d != idx);
    }
    pub fn remove_descendants(&mut self, i: usize) -> Result<usize, MErr> {
        if !self.nodes.contains_key(&i) {
            return Err(MErr::InvalidIndex);
        }
        let d = self.descendants(i);
        for x in &d {
            self.nodes.remove(x);
            self.dead.push(*x);
        }
        for c in self.nodes.get_mut(&i).unwrap().children.iter_mut() {
            *c = None;
        }
        Ok(d.len())
    }
    pub fn try_remove_child(&mut self, parent: usize, label: usize) -> Result<i64, MErr> {
        let p = self.nodes.get(&parent).ok_or(MErr::InvalidIndex)?;
        let c = p.children[label].ok_or(MErr::MissingChild)?;
        self.remove_descendants(c).unwrap();
        let v = self.nodes.remove(&c).unwrap().value;
        self.dead.push(c);
        self.nodes.get_mut(&parent).unwrap().children[label] = None;
        Ok(v)
    }
    /// returns the removed node
    pub fn merge(&mut self, parent: usize, label: usize) -> Result<MNode, MErr> {
        let p = match self.nodes.get(&parent) {
            Some(p) => p,
            None => return Err(MErr::Panic),
        };
        if self.num_children(parent) != 1 {
            return Err(MErr::Panic);
        }
        if parent == self.root {
            return Err(MErr::RootNode);
        }
        let c = p.children[label].ok_or(MErr::MissingChild)?;
        let gp = p.parent.unwrap();
        let gl = self.nodes[&gp].children.iter().position(|x| *x == Some(parent)).unwrap();
        self.nodes.get_mut(&gp).unwrap().children[gl] = Some(c);
        self.nodes.get_mut(&c).unwrap().parent = Some(gp);
        let removed = self.nodes.remove(&parent).unwrap();
        self.dead.push(parent);
        Ok(removed)
    }
    pub fn update(&mut self, i: usize, v: i64) -> Result<i64, MErr> {
        let n = self.nodes.get_mut(&i).ok_or(MErr::InvalidIndex)?;
        Ok(std::mem::replace(&mut n.value, v))
    }

    /// Snapshot of a library tree read from the raw arena.
    pub fn snapshot<const K: usize>(t: &Tree<i64, K>) -> Result<Model, String> {
        let mut nodes = BTreeMap::new();
        for (idx, n) in t.node_iter() {
            nodes.insert(idx, MNode { value: n.value, parent: n.parent, children: n.children.to_vec() });
        }
        Ok(Model { k: K, nodes, root: t.get_root_idx(), dead: Vec::new() })
    }
}

/// Compare the library tree with the model field by field; also the C12 invariants.
pub fn compare<const K: usize>(t: &Tree<i64, K>, m: &Model) -> Result<(), String> {
    let lib_idx: Vec<usize> = t.node_iter().map(|(i, _)| i).collect();
    let mod_idx: Vec<usize> = m.live();
    if lib_idx != mod_idx {
        return Err(format!("stored node indices {lib_idx:?} differ from expected {mod_idx:?}"));
    }
    if t.len() != m.nodes.len() {
        return Err(format!("len()={} but {} nodes expected", t.len(), m.nodes.len()));
    }
    if t.get_root_idx() != m.root {
        return Err(format!("root index {} != {}", t.get_root_idx(), m.root));
    }
    let mut parentless = 0;
    for (idx, n) in t.node_iter() {
        let e = &m.nodes[&idx];
        if n.value != e.value {
            return Err(format!("node {idx}: value {} != expected {}", n.value, e.value));
        }
        if n.parent != e.parent {
            return Err(format!("node {idx}: parent {:?} != expected {:?}", n.parent, e.parent));
        }
        if n.children.to_vec() != e.children {
            return Err(format!("node {idx}: children {:?} != expected {:?}", n.children, e.children));
        }
        let leaf = e.children.iter().all(|c| c.is_none());
        if n.isleaf != leaf {
            return Err(format!("node {idx}: isleaf={} but has children {:?}", n.isleaf, n.children));
        }
        if n.parent.is_none() {
            parentless += 1;
        }
    }
    if parentless != 1 {
        return Err(format!("{parentless} parentless nodes"));
    }
    // reachability from the root over raw child links
    let mut seen = std::collections::BTreeSet::new();
    let mut st = vec![t.get_root_idx()];
    while let Some(i) = st.pop() {
        if !seen.insert(i) {
            return Err(format!("node {i} reached twice"));
        }
        let n = t.tree_node(i).map_err(|_| format!("child link to missing node {i}"))?;
        for c in n.children.iter().flatten() {
            st.push(*c);
        }
    }
    if seen.len() != t.len() {
        return Err(format!("{} nodes stored, {} reachable", t.len(), seen.len()));
    }
    Ok(())
}

// ---------------------------------------------------------------------------------------------
// Reference traversals

#[derive(Clone, Copy, Debug, PartialEq, Eq)]
pub struct Item {
    pub index: usize,
    pub depth: usize,
    pub n_remaining: usize,
    /// (src,label) for edge traversals; (usize::MAX,0) for the start node
    pub src: usize,
    pub label: usize,
}

fn kids(m: &Model, i: usize) -> Vec<(usize, usize)> {
    m.nodes[&i].children.iter().enumerate().filter_map(|(l, c)| c.map(|c| (l, c))).collect()
}

pub fn preorder(m: &Model, s: usize) -> Vec<Item> {
    fn rec(m: &Model, it: Item, out: &mut Vec<Item>) {
        out.push(it);
        let ks = kids(m, it.index);
        let n = ks.len();
        for (pos, (l, c)) in ks.into_iter().enumerate() {
            rec(m, Item { index: c, depth: it.depth + 1, n_remaining: n - 1 - pos, src: it.index, label: l }, out);
        }
    }
    let mut out = Vec::new();
    rec(m, Item { index: s, depth: 0, n_remaining: 0, src: usize::MAX, label: 0 }, &mut out);
    out
}

/// second, independent implementation: sort nodes by their label path from s
pub fn preorder_by_sort(m: &Model, s: usize) -> Vec<usize> {
    let mut keyed: Vec<(Vec<usize>, usize)> = Vec::new();
    for &i in m.nodes.keys() {
        // path from s to i
        let mut path = Vec::new();
        let mut cur = i;
        let mut ok = cur == s;
        while cur != s {
            match m.nodes[&cur].parent {
                Some(p) => {
                    let l = m.nodes[&p].children.iter().position(|c| *c == Some(cur)).unwrap();
                    path.push(l);
                    cur = p;
                    if cur == s {
                        ok = true;
                    }
                }
                None => break,
            }
        }
        if ok {
            path.reverse();
            keyed.push((path, i));
        }
    }
    keyed.sort();
    keyed.into_iter().map(|(_, i)| i).collect()
}

pub fn level_order(m: &Model, s: usize) -> Vec<Item> {
    let mut out = Vec::new();
    let mut q = VecDeque::new();
    q.push_back(Item { index: s, depth: 0, n_remaining: 0, src: usize::MAX, label: 0 });
    while let Some(it) = q.pop_front() {
        out.push(it);
        let ks = kids(m, it.index);
        let n = ks.len();
        for (pos, (l, c)) in ks.into_iter().enumerate() {
            q.push_back(Item { index: c, depth: it.depth + 1, n_remaining: n - 1 - pos, src: it.index, label: l });
        }
    }
    out
}

pub fn is_proper_descendant(m: &Model, anc: usize, mut x: usize) -> bool {
    while let Some(p) = m.nodes[&x].parent {
        if p == anc {
            return true;
        }
        x = p;
    }
    false
}

#[derive(Clone, Copy, Debug, PartialEq, Eq)]
pub enum Kind {
    DfsPre,
    DfsEdge,
    Bfs,
}

pub struct RefTraversal {
    pub pending: VecDeque<Item>,
    pub last: Option<Item>,
}

impl RefTraversal {
    pub fn new(m: &Model, s: usize, kind: Kind) -> RefTraversal {
        let items = match kind {
            Kind::DfsPre => preorder(m, s),
            Kind::DfsEdge => preorder(m, s).into_iter().skip(1).collect(),
            Kind::Bfs => level_order(m, s),
        };
        RefTraversal { pending: items.into(), last: None }
    }
    pub fn next(&mut self) -> Option<Item> {
        let it = self.pending.pop_front()?;
        self.last = Some(it);
        Some(it)
    }
    pub fn skip(&mut self, m: &Model) -> usize {
        if let Some(l) = self.last {
            let before = self.pending.len();
            self.pending.retain(|it| !is_proper_descendant(m, l.index, it.index));
            before - self.pending.len()
        } else {
            0
        }
    }
}

/// Grows the tree (and the model) by `n` nodes at pseudo-randomly chosen free slots (deterministic in `seed`).
/// Used for the rare "large arena" cases: more than 1024 stored nodes, where size-gated fast paths live.
pub fn bulk_grow<N, const K: usize>(t: &mut affinitree::tree::graph::Tree<N, K>, m: &mut Model, n: usize, seed: u64, mk: &dyn Fn(i64) -> N) {
    let mut frontier: Vec<usize> = m.nodes.iter().filter(|(_, nd)| nd.children.iter().any(|c| c.is_none())).map(|(i, _)| *i).collect();
    let mut s = seed.wrapping_mul(0x9E37_79B9_7F4A_7C15) | 1;
    let mut next = || {
        s ^= s << 13;
        s ^= s >> 7;
        s ^= s << 17;
        s
    };
    for i in 0..n {
        if frontier.is_empty() {
            break;
        }
        let r = (next() % frontier.len() as u64) as usize;
        let p = frontier[r];
        let free: Vec<usize> = (0..K).filter(|l| m.nodes[&p].children[*l].is_none()).collect();
        let l = free[(next() % free.len() as u64) as usize];
        let v = 1000 + i as i64;
        match crate::runner::guard(|| t.add_child_node(p, l, mk(v))) {
            Ok(Ok(idx)) => {
                m.add(p, l, idx, v);
                frontier.push(idx);
                if free.len() == 1 {
                    frontier.swap_remove(r);
                }
            }
            _ => break,
        }
    }
}
