//! C09 — reported regions agree with evaluation and partition the domain.

use crate::exact::{qdot, Q};
use crate::gen::*;
use crate::gen_tree::*;
use crate::lp::{self, Row};
use crate::pwl::{self, aff_to_q, Ref};
use crate::runner::*;
use crate::treemodel::{preorder, MNode, Model, RefTraversal, Kind};
use affinitree::linalg::affine::Polytope;
use affinitree::pwl::afftree::AffTree;
use proptest::prelude::*;
use serde::{Deserialize, Serialize};
use std::collections::BTreeMap;

#[derive(Clone, Debug, Serialize, Deserialize)]
pub struct Case {
    pub t: TreeSpec,
    pub points: Vec<PointSpec>,
    pub script: Vec<bool>,
}

fn poly_rows(p: &Polytope) -> Vec<Row> {
    p.mat
        .outer_iter()
        .zip(p.bias.iter())
        .map(|(r, b)| Row::le(r.iter().map(|x| Q::from_f64(*x)).collect(), Q::from_f64(*b)))
        .collect()
}

/// half-spaces of the path to `idx`, rebuilt from raw parent links (closed sides, root first)
fn expected_halfspaces(t: &AffTree<2>, idx: usize) -> Vec<Row> {
    let mut chain = Vec::new();
    let mut cur = idx;
    while let Some(p) = t.tree.tree_node(cur).unwrap().parent {
        let label = pwl::raw_label(t, p, cur).unwrap();
        chain.push((p, label));
        cur = p;
    }
    chain.reverse();
    let mut rows = Vec::new();
    for (p, label) in chain {
        let a = aff_to_q(&t.tree.tree_node(p).unwrap().value.aff);
        for i in 0..a.outdim() {
            let r = Row::le(a.mat[i].clone(), a.bias[i].clone());
            rows.push(if label == 1 { r } else { Row::le(r.a.iter().map(|x| -x).collect(), -&r.b) });
        }
    }
    rows
}

fn model_of(t: &AffTree<2>) -> Model {
    let mut nodes = BTreeMap::new();
    for (i, n) in t.tree.node_iter() {
        nodes.insert(i, MNode { value: 0, parent: n.parent, children: n.children.to_vec() });
    }
    Model { k: 2, nodes, root: t.tree.get_root_idx(), dead: Vec::new() }
}

pub fn run_case(c: &Case, ctx: &mut Ctx) -> CaseResult {
    let n = c.t.in_dim;
    let tr = c.t.resolve(&[]);
    let tree = tr.build::<2>(&c.t.order, &c.t.junk);
    let total = tr.is_total();
    ctx.count("nodes", tr.count() as u64);
    ctx.class(&format!("depth{}", tr.depth()));
    ctx.class(if total { "total" } else { "partial" });
    ctx.class_if(tree.tree.node_indices().enumerate().any(|(i, idx)| i != idx), "index_holes");
    let m = model_of(&tree);
    let xref = Ref::from_afftree(&tree);
    let anchors = c.t.all_anchors(&[]);

    // ---- stream of polyhedra_iter vs reference preorder and raw path conditions
    let items: Vec<(usize, usize, usize, Vec<Polytope>)> = guard(|| tree.polyhedra_iter().collect()).map_err(|p| Failure::new(format!("polyhedra_iter panicked: {p}")))?;
    let pre = preorder(&m, m.root);
    if items.len() != pre.len() {
        return Err(Failure::new(format!("polyhedra_iter reported {} nodes, the tree has {}", items.len(), pre.len())));
    }
    // ---- the same stream through the standard iterator adaptors: whatever way a caller advances the
    // iterator (nth, skip, step_by, last, count), it must see the items that repeated next() yields
    {
        let key = |it: &(usize, usize, usize, Vec<Polytope>)| -> (usize, usize, usize, Vec<(Vec<u64>, u64)>) {
            let rows = it.3.iter().flat_map(|p| p.mat.outer_iter().zip(p.bias.iter()).map(|(r, b)| (r.iter().map(|x| x.to_bits()).collect::<Vec<u64>>(), b.to_bits())).collect::<Vec<_>>()).collect();
            (it.0, it.1, it.2, rows)
        };
        let want: Vec<_> = items.iter().map(key).collect();
        let k = if items.is_empty() { 0 } else { (c.script.len() * 7 + c.points.len()) % (items.len() + 1) };
        let step = 1 + c.script.len() % 4;
        let adaptors: Vec<(&str, Result<Vec<_>, String>, Vec<_>)> = vec![
            ("nth(k)", guard(|| tree.polyhedra_iter().nth(k).iter().map(key).collect()), want.iter().skip(k).take(1).cloned().collect()),
            ("skip(k)", guard(|| tree.polyhedra_iter().skip(k).map(|it| key(&it)).collect()), want.iter().skip(k).cloned().collect()),
            ("step_by(s)", guard(|| tree.polyhedra_iter().step_by(step).map(|it| key(&it)).collect()), want.iter().step_by(step).cloned().collect()),
            ("last()", guard(|| tree.polyhedra_iter().last().iter().map(key).collect()), want.last().cloned().into_iter().collect()),
            ("nth(k) then the rest", guard(|| { let mut it = tree.polyhedra_iter(); let _ = it.nth(k); it.map(|x| key(&x)).collect() }), want.iter().skip(k + 1).cloned().collect()),
        ];
        for (name, got, exp) in adaptors {
            let got = got.map_err(|p| Failure::new(format!("polyhedra_iter().{name} panicked: {p}")))?;
            if got != exp {
                return Err(Failure::new(format!(
                    "polyhedra_iter().{name} with k={k}, s={step} yields {} item(s) that differ from what repeated next() yields (first nodes: got {:?}, expected {:?})",
                    got.len(),
                    got.iter().take(3).map(|g| (g.1, g.3.len())).collect::<Vec<_>>(),
                    exp.iter().take(3).map(|g| (g.1, g.3.len())).collect::<Vec<_>>()
                )));
            }
        }
        let cnt = guard(|| tree.polyhedra_iter().count()).map_err(|p| Failure::new(format!("polyhedra_iter().count() panicked: {p}")))?;
        if cnt != items.len() {
            return Err(Failure::new(format!("polyhedra_iter().count() = {cnt}, but {} items are yielded", items.len())));
        }
    }
    let mut reported: BTreeMap<usize, Vec<Row>> = BTreeMap::new();
    for ((depth, idx, nrem, polys), e) in items.iter().zip(&pre) {
        if (*depth, *idx, *nrem) != (e.depth, e.index, e.n_remaining) {
            return Err(Failure::new(format!(
                "polyhedra_iter item (depth {depth}, node {idx}, n_remaining {nrem}) but depth-first order expects (depth {}, node {}, n_remaining {})",
                e.depth, e.index, e.n_remaining
            )));
        }
        let rows: Vec<Row> = polys.iter().flat_map(poly_rows).collect();
        let exp = expected_halfspaces(&tree, *idx);
        if rows != exp {
            return Err(Failure::new(format!(
                "polyhedra_iter: half-spaces reported for node {idx} are {:?}, the path from the root gives {:?}",
                rows.iter().map(|r| (r.a.clone(), r.b.clone())).collect::<Vec<_>>(),
                exp.iter().map(|r| (r.a.clone(), r.b.clone())).collect::<Vec<_>>()
            )));
        }
        if reported.insert(*idx, rows).is_some() {
            return Err(Failure::new(format!("polyhedra_iter reported node {idx} twice")));
        }
    }

    // ---- scripted polyhedra() with skip_subtree
    {
        let mut gen = tree.polyhedra();
        let mut rf = RefTraversal::new(&m, m.root, Kind::DfsPre);
        let mut steps = vec![true];
        steps.extend_from_slice(&c.script);
        let mut skips_deep = 0;
        for (si, &is_next) in steps.iter().enumerate() {
            if is_next {
                let got = guard(|| gen.next(&tree.tree).map(|(d, p)| (d.depth, d.index, d.n_remaining, p.clone()))).map_err(|p| Failure::new(format!("polyhedra().next panicked at step {si}: {p}")))?;
                let e = rf.next();
                match (got, e) {
                    (None, None) => break,
                    (Some((d, i, r, polys)), Some(e)) => {
                        if (d, i, r) != (e.depth, e.index, e.n_remaining) {
                            return Err(Failure::new(format!("polyhedra() step {si}: got (depth {d}, node {i}, n_remaining {r}), expected (depth {}, node {}, n_remaining {})", e.depth, e.index, e.n_remaining)));
                        }
                        let rows: Vec<Row> = polys.iter().flat_map(poly_rows).collect();
                        if rows != expected_halfspaces(&tree, i) {
                            return Err(Failure::new(format!("polyhedra() step {si}: wrong path conditions for node {i} after {} skip(s)", steps[..si].iter().filter(|s| !**s).count())));
                        }
                    }
                    (Some((_, i, _, _)), None) => return Err(Failure::new(format!("polyhedra() step {si}: extra node {i}"))),
                    (None, Some(e)) => return Err(Failure::new(format!("polyhedra() step {si}: ended although node {} was still to come", e.index))),
                }
            } else {
                let depth_of_last = rf.last.map(|l| l.depth).unwrap_or(0);
                guard(|| gen.skip_subtree()).map_err(|p| Failure::new(format!("polyhedra().skip_subtree panicked: {p}")))?;
                if rf.skip(&m) > 0 && depth_of_last >= 1 {
                    skips_deep += 1;
                }
            }
        }
        ctx.class_if(skips_deep > 0, "skip_at_depth");
    }

    // ---- inputs: find_terminal path vs raw links, reported regions, reference evaluation
    let mut on_boundary = 0;
    for ps in &c.points {
        let x = ps.resolve(&anchors, n);
        let xq = qv(&x);
        let xa = arr(&x);
        let ft = guard(|| tree.find_terminal(tree.tree.get_root(), &xa).map(|(node, labels)| (node as *const _ as usize, labels)))
            .map_err(|p| Failure::new(format!("find_terminal panicked: {p}")))?;
        let (exp_val, exp_tag) = xref.eval_leaf(&xq);
        if xref.boundary_count(&xq) > 0 {
            on_boundary += 1;
        }
        match ft {
            None => {
                if exp_val.is_some() {
                    return Err(Failure::new(format!("find_terminal({x:?}) is None but the raw structure routes the input to terminal {exp_tag}")));
                }
            }
            Some((addr, labels)) => {
                // follow the labels through raw child links
                let mut cur = tree.tree.get_root_idx();
                let mut path = vec![cur];
                for l in &labels {
                    match tree.tree.tree_node(cur).unwrap().children.get(*l).copied().flatten() {
                        Some(cn) => {
                            cur = cn;
                            path.push(cur);
                        }
                        None => return Err(Failure::new(format!("find_terminal({x:?}) returned labels {labels:?} that leave the tree at node {cur}"))),
                    }
                }
                let node_addr = tree.tree.tree_node(cur).unwrap() as *const _ as usize;
                if node_addr != addr {
                    return Err(Failure::new(format!("find_terminal({x:?}): label sequence {labels:?} leads to node {cur}, not to the returned terminal")));
                }
                if exp_val.is_none() || exp_tag != cur {
                    return Err(Failure::new(format!("find_terminal({x:?}) reached node {cur}; exact evaluation of the predicates reaches {:?}", if exp_val.is_some() { Some(exp_tag) } else { None })));
                }
                // x satisfies every reported half-space of every node on its path
                for nd in &path {
                    for r in &reported[nd] {
                        if qdot(&r.a, &xq) > r.b {
                            return Err(Failure::new(format!("input {x:?} is routed through node {nd} but violates its reported path condition {:?} <= {}", r.a, r.b)));
                        }
                    }
                }
            }
        }
        if total && exp_val.is_none() {
            return Err(Failure::new(format!("total tree is undefined at {x:?}")));
        }
    }

    // ---- converse: a point strictly inside a node's reported polytope is routed through that node
    let mut interior_checked = 0;
    for (idx, rows) in &reported {
        // "strictly inside" = every reported half-space holds strictly (a degenerate zero row
        // 0 <= 0 has no strict interior)
        let strict: Vec<Row> = rows.iter().map(|r| Row::lt(r.a.clone(), r.b.clone())).collect();
        if let Some(p) = lp::nonempty_exact(&strict, n).map(|x| lp::snap_interior(rows, &x)) {
            if !strict.iter().all(|r| r.holds(&p)) {
                continue;
            }
            if !p.iter().all(|q| q.is_exact_f64()) {
                continue;
            }
            // the library decides a.x - b <= 0 in f64; the point is only judged if its exact distance to every
            // reported hyperplane exceeds a rigorous bound on the rounding error of that dot product (with rows
            // scaled by 2^-32 next to rows scaled by 2^25 an interior point can sit at |x| ~ 4e9 with a margin
            // of 1e-9, where a.x has to round)
            let u = Q::from_f64(2f64.powi(-50) * (n as f64 + 2.0));
            let safe = rows.iter().all(|r| {
                let mag = r.a.iter().zip(&p).fold(r.b.abs(), |acc, (a, x)| &acc + &(a * x).abs());
                &r.b - &qdot(&r.a, &p) > &u * &mag
            });
            if !safe {
                ctx.count("interior_point_within_rounding_of_a_hyperplane", 1);
                continue;
            }
            interior_checked += 1;
            let pf: Vec<f64> = p.iter().map(|q| q.to_f64()).collect();
            // route with the library's own decision function
            let mut cur = tree.tree.get_root_idx();
            let mut visited = vec![cur];
            loop {
                let node = tree.tree.tree_node(cur).unwrap();
                if node.isleaf {
                    break;
                }
                let l = tree.evaluate_decision(node, &arr(&pf));
                match node.children[l] {
                    Some(cn) => {
                        cur = cn;
                        visited.push(cur);
                    }
                    None => break,
                }
            }
            if !visited.contains(idx) {
                return Err(Failure::new(format!("point {pf:?} lies strictly inside the reported polytope of node {idx} but evaluation routes it through {visited:?}")));
            }
        }
    }
    ctx.count("interior_points_routed", interior_checked);

    // ---- terminal regions have pairwise disjoint interiors
    let terms: Vec<usize> = tree.tree.terminal_indices().collect();
    let mut pairs = 0;
    // (interior = every reported half-space strictly satisfied; for non-degenerate rows this is the
    // topological interior, and a degenerate zero row 0 <= 0 contributes an empty interior)
    let strict_of = |i: usize| -> Vec<Row> { reported[&i].iter().map(|r| Row::lt(r.a.clone(), r.b.clone())).collect() };
    for (a, &i) in terms.iter().enumerate() {
        if lp::nonempty_exact(&strict_of(i), n).is_none() {
            continue;
        }
        for &j in &terms[..a] {
            let mut both = strict_of(i);
            both.extend(strict_of(j));
            pairs += 1;
            if lp::nonempty_exact(&both, n).is_some() {
                return Err(Failure::new(format!("reported regions of terminals {j} and {i} have a common interior point")));
            }
        }
    }
    ctx.count("terminal_pairs", pairs);
    ctx.count("inputs_on_boundary", on_boundary);
    ctx.set_nontrivial(tr.depth() >= 2 && on_boundary >= 1 && c.script.iter().any(|s| !*s));
    Ok(())
}

pub struct C09;

impl Property for C09 {
    type Case = Case;
    fn id(&self) -> &'static str {
        "C09"
    }
    fn rule(&self) -> String {
        "binary trees (dims 1..3, depth <= 4, total and partial, arena layouts with holes/reused indices, hyperplanes through anchor points) x inputs (anchors, lattice neighbours, free lattice points) x scripts of next/skip_subtree on polyhedra(): the polyhedra_iter stream must equal depth-first order with depth/sibling counters and the half-spaces rebuilt from raw parent links (also after skips); nth / skip / step_by / last / count on polyhedra_iter must agree with repeated next(); find_terminal's labels must lead to the returned node via raw child links and agree with exact evaluation of the predicates; the input must satisfy all reported conditions along its path; an exact interior point of every node's reported polytope must be routed through that node; terminal regions must have disjoint interiors; total trees must be defined everywhere. Non-trivial = depth >= 2, >= 1 input exactly on a hyperplane and >= 1 skip in the script; distinct = distinct serialised cases".into()
    }
    fn assumptions(&self) -> Vec<String> {
        vec!["K = 2 (the path-polytope code panics by design on labels >= 2)".into(), "label 1 is the closed side a.x <= b, label 0 the open side (documentation of evaluate_decision)".into()]
    }
    fn cases(&self, tier: Tier) -> usize {
        tier.pick(40000, 600_000)
    }
    fn strategy(&self, tier: Tier) -> BoxedStrategy<Case> {
        let maxd = tier.pick(4u32, 5u32);
        (sized_wide(3, 6), sized(2, 3))
            .prop_flat_map(move |(n, p)| {
                let maxd = if n >= 8 { 3 } else { maxd };
                (
                    super::c02::tree_params_strategy(2, n, p, maxd).prop_flat_map(tree_spec),
                    proptest::collection::vec(point_spec(n), 6..12),
                    proptest::collection::vec(prop_oneof![3 => Just(true), 1 => Just(false)], 0..20),
                )
            })
            .prop_map(|(t, points, script)| Case { t, points, script })
            .boxed()
    }
    fn run(&self, case: &Case, ctx: &mut Ctx) -> CaseResult {
        run_case(case, ctx)
    }
}
