//! C18 — Architecture shape tracking and layer files describe the real network.

use super::c01::W;
use crate::exact::{AffQ, Q};
use crate::gen::*;
use crate::hist::project_aff;
use crate::pwl::{aff_to_q, compare_tree_opts, EquivMode, Ref};
use crate::runner::*;
use crate::schema::SchemaSpec;
use affinitree::distill::arch::{Architecture, TensorShape};
use affinitree::distill::builder::{afftree_from_layers, read_layers, Layer};
use ndarray::{Array1, Array2};
use ndarray_npy::NpzWriter;
use proptest::prelude::*;
use serde::{Deserialize, Serialize};
use std::sync::atomic::{AtomicU64, Ordering};

#[derive(Clone, Debug, Serialize, Deserialize)]
pub enum Call {
    Linear { a: Aff, matching: bool, indim: u8, out: u8 },
    PartialRelu(u8),
    Relu,
    PartialLeaky(u8, f64),
    Leaky(f64),
    PartialHardTanh(u8),
    HardTanh,
    PartialHardSigmoid(u8),
    HardSigmoid,
    Argmax,
}

#[derive(Clone, Debug, Serialize, Deserialize)]
pub enum Entry {
    Linear { w: Mat, b: Vec<f64> },
    Relu,
    HardTanh,
    HardSigmoid,
}

#[derive(Clone, Debug, Serialize, Deserialize)]
pub enum Case {
    Arch { in_dim: usize, calls: Vec<Call>, points: Vec<Vec<f64>> },
    File { entries: Vec<Entry>, start_idx: u8, with_layers_entry: bool, shuffle: Vec<u16> },
}

fn sel_for(row: usize, dim: usize) -> u16 {
    (((row as u32) << 16) / dim as u32 + if row == 0 { 0 } else { 1 }) as u16
}

/// textbook reference of a layer list; None if some layer is not applicable in the current dim
pub fn ref_of_layers(in_dim: usize, layers: &[Layer]) -> (Ref, usize, bool) {
    let mut r = Ref::leaf(AffQ::identity(in_dim));
    let mut dim = in_dim;
    let mut exact = true;
    for l in layers {
        match l {
            Layer::Linear(a) => {
                let q = aff_to_q(a);
                dim = q.outdim();
                r = r.then(&Ref::leaf(q));
            }
            Layer::ReLU(i) => r = r.then(&SchemaSpec::ReLU { row: sel_for(*i, dim) }.reference(dim)),
            Layer::LeakyReLU(i, al) => r = r.then(&SchemaSpec::Leaky { row: sel_for(*i, dim), alpha: *al }.reference(dim)),
            Layer::HardTanh(i) => r = r.then(&SchemaSpec::HardTanh { row: sel_for(*i, dim), min: -1.0, width: 2.0 }.reference(dim)),
            Layer::HardSigmoid(i) => {
                exact = false;
                r = r.then(&SchemaSpec::HardSigmoid { row: sel_for(*i, dim) }.reference(dim))
            }
            Layer::Argmax => {
                r = r.then(&SchemaSpec::Argmax.reference(dim));
                dim = 1;
            }
            Layer::ClassChar(c) => {
                r = r.then(&SchemaSpec::ClassChar { clazz: sel_for(*c, dim) }.reference(dim));
                dim = 1;
            }
        }
    }
    (r, dim, exact)
}

fn run_arch(in_dim: usize, calls: &[Call], points: &[Vec<f64>], ctx: &mut Ctx) -> CaseResult {
    let mut arch = Architecture::new(TensorShape::Flat { in_dim });
    let mut d = in_dim; // model: true output dimension
    let mut dims_after: Vec<usize> = Vec::new(); // per queued operator
    let mut rejected_then_accepted = false;
    let mut last_rejected = false;
    let mut call_after_argmax = false;
    let mut seen_argmax = false;
    let mut n_act = 0usize;
    for (ci, call) in calls.iter().enumerate() {
        if n_act > 6 {
            break;
        }
        let ops_before = arch.operators.len();
        let shape_before = arch.current_shape;
        // expected outcome and number of queued operators
        let (res, exp_ok, exp_new_ops, new_d): (Result<Result<(), String>, String>, bool, usize, usize) = match call {
            Call::Linear { a, matching, indim, out } => {
                let i = if *matching { d } else { 1 + (*indim as usize % W) };
                let o = 1 + (*out as usize % 3);
                let a = project_aff(a, o, i).lib();
                (guard(|| arch.linear(a).map_err(|e| e.to_string())), i == d, 1, o)
            }
            Call::PartialRelu(i) => (guard(|| arch.partial_relu(*i as usize).map_err(|e| e.to_string())), (*i as usize) < d, 1, d),
            Call::Relu => (guard(|| arch.relu().map_err(|e| e.to_string())), true, d, d),
            Call::PartialLeaky(i, al) => (guard(|| arch.partial_leaky_relu(*i as usize, *al).map_err(|e| e.to_string())), (*i as usize) < d, 1, d),
            Call::Leaky(al) => (guard(|| arch.leaky_relu(*al).map_err(|e| e.to_string())), true, d, d),
            Call::PartialHardTanh(i) => (guard(|| arch.partial_hard_tanh(*i as usize).map_err(|e| e.to_string())), (*i as usize) < d, 1, d),
            Call::HardTanh => (guard(|| arch.hard_tanh().map_err(|e| e.to_string())), true, d, d),
            Call::PartialHardSigmoid(i) => (guard(|| arch.partial_hard_sigmoid(*i as usize).map_err(|e| e.to_string())), (*i as usize) < d, 1, d),
            Call::HardSigmoid => (guard(|| arch.hard_sigmoid().map_err(|e| e.to_string())), true, d, d),
            Call::Argmax => (guard(|| arch.argmax().map_err(|e| e.to_string())), d >= 2, 1, 1),
        };
        let res = res.map_err(|pm| Failure::new(format!("call {ci} ({call:?}) panicked: {pm}")))?;
        if seen_argmax {
            call_after_argmax = true;
        }
        match (res, exp_ok) {
            (Ok(()), true) => {
                if arch.operators.len() != ops_before + exp_new_ops {
                    return Err(Failure::new(format!("call {ci} ({call:?}) queued {} operators, expected {exp_new_ops}", arch.operators.len() - ops_before)));
                }
                if !matches!(call, Call::Linear { .. } | Call::Argmax) {
                    n_act += exp_new_ops;
                }
                d = new_d;
                for _ in 0..exp_new_ops {
                    dims_after.push(d);
                }
                if last_rejected {
                    rejected_then_accepted = true;
                }
                last_rejected = false;
                if matches!(call, Call::Argmax) {
                    seen_argmax = true;
                }
            }
            (Err(_), false) => {
                if arch.operators.len() != ops_before || arch.current_shape != shape_before {
                    return Err(Failure::new(format!("call {ci} ({call:?}) was rejected but changed the architecture")));
                }
                last_rejected = true;
                ctx.class("rejected_call");
            }
            (Ok(()), false) => {
                return Err(Failure::new(format!(
                    "call {ci} ({call:?}) was accepted although it is not dimension-compatible with the network built so far (true output dimension {d}, tracked shape {})",
                    shape_before.max_dim()
                )))
            }
            (Err(e), true) => {
                return Err(Failure::new(format!(
                    "call {ci} ({call:?}) was rejected ({e}) although it is dimension-compatible (true output dimension {d}, tracked shape {})",
                    shape_before.max_dim()
                )))
            }
        }
        if arch.current_shape.max_dim() != d {
            return Err(Failure::new(format!(
                "after call {ci} ({call:?}) current_shape is {} but the network built so far has output dimension {d}",
                arch.current_shape.max_dim()
            )));
        }
    }
    let nops = arch.operators.len();
    ctx.count("operators", nops as u64);
    if nops == 0 {
        return Ok(());
    }
    // every accepted architecture distills without a dimension panic
    let layers: Vec<Layer> = arch.operators().cloned().collect();
    let (r, rd, exact) = ref_of_layers(in_dim, &layers);
    if rd != d {
        panic!("{}: reference dimension {rd} != model {d}", crate::lp::ORACLE_ERR);
    }
    if r.count_leaves() > 2000 || (exact && !r.max_bits().map(|b| b <= 50).unwrap_or(false)) {
        ctx.class("too_large_or_inexact_skipped");
        return Ok(());
    }
    let whole = must("afftree_from_layers(whole architecture)", || afftree_from_layers(in_dim, &layers, None))?;
    crate::pwl::well_formed(&whole, Some(d)).map_err(|e| Failure::new(format!("distilled architecture: {e}")))?;
    let inputs: Vec<Vec<Q>> = points.iter().map(|p| qv(&p[..in_dim])).collect();
    let lim = Q::from_f64(1e-6);
    let (mode, inputs) = if exact {
        (EquivMode::exact(), inputs)
    } else {
        (EquivMode::approx(1e-6, 1e-9), inputs.into_iter().filter(|x| r.min_abs_slack(x).map(|s| s > lim).unwrap_or(true)).collect())
    };
    compare_tree_opts("tree of the whole architecture", &whole, &r, &inputs, &mode, true).map_err(|(m, d)| Failure::with(m, d))?;
    // every split point
    let mut split_in_act_run = false;
    for k in 1..nops {
        let a1 = must("extract_range(0,k)", || arch.extract_range(0, k))?.map_err(|e| Failure::new(format!("extract_range(0,{k}) failed: {e}")))?;
        let a2 = must("extract_range(k,n)", || arch.extract_range(k, nops))?.map_err(|e| Failure::new(format!("extract_range({k},{nops}) failed: {e}")))?;
        if a1.operators.len() != k || a2.operators.len() != nops - k {
            return Err(Failure::new(format!("extract_range at split {k}: sub-architectures have {} + {} operators, expected {k} + {}", a1.operators.len(), a2.operators.len(), nops - k)));
        }
        let dk = dims_after[k - 1];
        if a1.input_shape.max_dim() != in_dim || a1.current_shape.max_dim() != dk || a2.input_shape.max_dim() != dk || a2.current_shape.max_dim() != d {
            return Err(Failure::new(format!(
                "extract_range at split {k}: shapes ({} -> {}) and ({} -> {}), expected ({in_dim} -> {dk}) and ({dk} -> {d})",
                a1.input_shape.max_dim(),
                a1.current_shape.max_dim(),
                a2.input_shape.max_dim(),
                a2.current_shape.max_dim()
            )));
        }
        if !matches!(layers[k - 1], Layer::Linear(_)) && !matches!(layers[k], Layer::Linear(_)) {
            split_in_act_run = true;
        }
        let l1: Vec<Layer> = a1.operators().cloned().collect();
        let l2: Vec<Layer> = a2.operators().cloned().collect();
        let mut t1 = must("distill first part", || afftree_from_layers(in_dim, &l1, None))?;
        let t2 = must("distill second part", || afftree_from_layers(dk, &l2, None))?;
        must("compose parts", || t1.compose::<false, false>(&t2))?;
        compare_tree_opts(&format!("T(0..{k}) composed with T({k}..{nops})"), &t1, &r, &inputs, &mode, true).map_err(|(m, d)| Failure::with(m, d))?;
    }
    ctx.class("arch");
    ctx.class_if(split_in_act_run, "split_inside_activation_run");
    ctx.class_if(call_after_argmax, "call_after_argmax");
    ctx.set_nontrivial(rejected_then_accepted || call_after_argmax || split_in_act_run);
    Ok(())
}

static FILE_COUNTER: AtomicU64 = AtomicU64::new(0);

fn run_file(entries: &[Entry], start_idx: u8, with_layers_entry: bool, shuffle: &[u16], ctx: &mut Ctx) -> CaseResult {
    ctx.class("npz_file");
    let dir = verif_root().join("work");
    std::fs::create_dir_all(&dir).ok();
    let path = dir.join(format!("c18_{}_{}.npz", std::process::id(), FILE_COUNTER.fetch_add(1, Ordering::Relaxed)));
    // build the list of (name, array)
    enum Arr {
        M(Array2<f64>),
        V(Array1<f64>),
    }
    let mut items: Vec<(String, Arr)> = Vec::new();
    let mut expected: Vec<Layer> = Vec::new();
    let mut dim = 0usize;
    let base = (start_idx % 3) as usize;
    for (i, e) in entries.iter().enumerate() {
        let idx = base + i;
        match e {
            Entry::Linear { w, b } => {
                items.push((format!("{idx:03}.linear.weights.npy"), Arr::M(w.to_array())));
                items.push((format!("{idx:03}.linear.bias.npy"), Arr::V(Array1::from_vec(b.clone()))));
                expected.push(Layer::Linear(affinitree::linalg::affine::AffFunc::from_mats(w.to_array(), Array1::from_vec(b.clone()))));
                dim = w.nrows();
            }
            Entry::Relu => {
                items.push((format!("{idx:03}.relu.npy"), Arr::V(Array1::zeros(1))));
                for j in 0..dim {
                    expected.push(Layer::ReLU(j));
                }
            }
            Entry::HardTanh => {
                items.push((format!("{idx:03}.hard_tanh.npy"), Arr::V(Array1::zeros(1))));
                for j in 0..dim {
                    expected.push(Layer::HardTanh(j));
                }
            }
            Entry::HardSigmoid => {
                items.push((format!("{idx:03}.hard_sigmoid.npy"), Arr::V(Array1::zeros(1))));
                for j in 0..dim {
                    expected.push(Layer::HardSigmoid(j));
                }
            }
        }
    }
    if with_layers_entry {
        items.push(("000.layers.npy".to_string(), Arr::V(Array1::from_vec(vec![entries.len() as f64]))));
    }
    // shuffle the order inside the archive (the reader sorts by name)
    for (k, s) in shuffle.iter().enumerate() {
        if items.len() > 1 {
            let i = k % items.len();
            let j = pick(*s, items.len());
            items.swap(i, j);
        }
    }
    {
        let f = std::fs::File::create(&path).map_err(|e| Failure::new(format!("{}: cannot create scratch file: {e}", crate::lp::ORACLE_ERR)))?;
        let mut npz = NpzWriter::new(f);
        for (name, a) in &items {
            match a {
                Arr::M(m) => npz.add_array(name.clone(), m),
                Arr::V(v) => npz.add_array(name.clone(), v),
            }
            .map_err(|e| Failure::new(format!("{}: writing npz failed: {e}", crate::lp::ORACLE_ERR)))?;
        }
        npz.finish().map_err(|e| Failure::new(format!("{}: finishing npz failed: {e}", crate::lp::ORACLE_ERR)))?;
    }
    let res = guard(|| read_layers(&path));
    let _ = std::fs::remove_file(&path);
    let got = res.map_err(|pm| Failure::new(format!("read_layers panicked on a file in the documented dialect: {pm}")))?.map_err(|e| Failure::new(format!("read_layers failed: {e}")))?;
    if got.len() != expected.len() {
        return Err(Failure::new(format!("read_layers returned {} layers, the file describes {}", got.len(), expected.len())));
    }
    for (i, (g, e)) in got.iter().zip(&expected).enumerate() {
        let same = match (g, e) {
            (Layer::Linear(a), Layer::Linear(b)) => {
                a.mat.shape() == b.mat.shape()
                    && a.mat.iter().zip(b.mat.iter()).all(|(x, y)| x.to_bits() == y.to_bits())
                    && a.bias.len() == b.bias.len()
                    && a.bias.iter().zip(b.bias.iter()).all(|(x, y)| x.to_bits() == y.to_bits())
            }
            (Layer::ReLU(a), Layer::ReLU(b)) => a == b,
            (Layer::HardTanh(a), Layer::HardTanh(b)) => a == b,
            (Layer::HardSigmoid(a), Layer::HardSigmoid(b)) => a == b,
            _ => false,
        };
        if !same {
            return Err(Failure::new(format!("read_layers: layer {i} is {g:?}, the file describes {e:?}")));
        }
    }
    ctx.class_if(entries.len() >= 11, "ge11_entries");
    ctx.count("file_entries", entries.len() as u64);
    ctx.set_nontrivial(entries.len() >= 3 && expected.len() >= 3);
    Ok(())
}

fn call() -> impl Strategy<Value = Call> {
    prop_oneof![
        6 => (aff(W, W), prop::bool::weighted(0.8), any::<u8>(), any::<u8>()).prop_map(|(a, matching, indim, out)| Call::Linear { a, matching, indim, out }),
        2 => (0u8..4).prop_map(Call::PartialRelu),
        2 => Just(Call::Relu),
        1 => (0u8..4, prop_oneof![Just(0.5), Just(0.0), Just(-1.0)]).prop_map(|(i, a)| Call::PartialLeaky(i, a)),
        1 => prop_oneof![Just(0.5), Just(2.0)].prop_map(Call::Leaky),
        1 => (0u8..4).prop_map(Call::PartialHardTanh),
        1 => Just(Call::HardTanh),
        1 => (0u8..4).prop_map(Call::PartialHardSigmoid),
        1 => Just(Call::HardSigmoid),
        2 => Just(Call::Argmax),
    ]
}

fn entries(max: usize) -> impl Strategy<Value = Vec<Entry>> {
    // widths chained: each linear layer takes the previous width as input
    proptest::collection::vec((0u8..4, 1usize..=4, aff(4, 4)), 1..=max).prop_map(|specs| {
        let mut out = Vec::new();
        let mut cur = 3usize;
        for (kind, width, a) in specs {
            match kind {
                0 | 1 => {
                    let p = project_aff(&a, width, cur);
                    out.push(Entry::Linear { w: p.mat, b: p.bias });
                    cur = width;
                }
                2 => out.push(Entry::Relu),
                _ => out.push(if width % 2 == 0 { Entry::HardTanh } else { Entry::HardSigmoid }),
            }
        }
        out
    })
}

pub struct C18;

impl Property for C18 {
    type Case = Case;
    fn id(&self) -> &'static str {
        "C18"
    }
    fn rule(&self) -> String {
        "(a) histories of Architecture builder calls (linear with matching or mismatching input width, every partial_* with in-range and out-of-range neuron index, every full activation layer, argmax; calls continue after argmax and after rejected calls) from in_dim 1..3: each call's Ok/Err must equal a model of the true output dimension, Err must leave operators and current_shape unchanged, current_shape must equal the true dimension after every call, the accepted architecture must distill without panic to a well-formed tree equal to the textbook semantics of its layers, and for EVERY split point k extract_range(0,k) / extract_range(k,n) must carry the right shapes and their trees must compose to the same function (all full-dimensional cells + inputs); (b) layer lists written in the npz dialect (zero-padded three-digit indices, linear weights/bias, relu / hard_tanh / hard_sigmoid markers, optional 000.layers.npy, up to 40 entries, archive order shuffled): read_layers must return the layers in index order, weights bit-for-bit, one activation per neuron of the preceding linear layer. Non-trivial = (a) a rejected call followed by an accepted one, or a call after argmax, or a split inside an activation run; (b) >= 3 entries; distinct = distinct serialised cases".into()
    }
    fn assumptions(&self) -> Vec<String> {
        vec![
            "argmax is dimension-compatible iff the current dimension is >= 2 (argmax(1) cannot be distilled) and leaves dimension 1".into(),
            "files use the dialect the repository ships (res/nn/*.npz); scratch files live under /verif/work and are removed after each case".into(),
            "hard sigmoid architectures are compared in the float regime (1e-6 ball, 1e-9 relative)".into(),
        ]
    }
    fn cases(&self, tier: Tier) -> usize {
        tier.pick(2500, 60_000)
    }
    fn strategy(&self, tier: Tier) -> BoxedStrategy<Case> {
        let max_calls = tier.pick(8usize, 12usize);
        let arch = (1usize..=3, proptest::collection::vec(call(), 1..=max_calls), proptest::collection::vec(lattice(3), 6..12)).prop_map(|(in_dim, calls, points)| Case::Arch { in_dim, calls, points });
        let file = (entries(40), any::<u8>(), any::<bool>(), proptest::collection::vec(any::<u16>(), 0..20)).prop_map(|(entries, start_idx, with_layers_entry, shuffle)| Case::File { entries, start_idx, with_layers_entry, shuffle });
        prop_oneof![2 => arch, 1 => file].boxed()
    }
    fn run(&self, case: &Case, ctx: &mut Ctx) -> CaseResult {
        match case {
            Case::Arch { in_dim, calls, points } => run_arch(*in_dim, calls, points, ctx),
            Case::File { entries, start_idx, with_layers_entry, shuffle } => run_file(entries, *start_idx, *with_layers_entry, shuffle, ctx),
        }
    }
}
