//! C07 — tree arithmetic is the point-wise lifting of affine arithmetic.

use crate::exact::{AffQ, Q};
use crate::gen::*;
use crate::gen_tree::*;
use crate::pwl::{compare_tree_opts, EquivMode, Ref};
use crate::runner::*;
use affinitree::pwl::afftree::AffTree;
use proptest::prelude::*;
use serde::{Deserialize, Serialize};

#[derive(Clone, Debug, Serialize, Deserialize)]
pub struct Case {
    pub a: TreeSpec,
    pub b: TreeSpec,
    pub f: Aff,
    pub points: Vec<PointSpec>,
}

fn to_pow2(v: f64) -> f64 {
    if v == 0.0 {
        return 1.0;
    }
    let e = v.abs().log2().round().clamp(-2.0, 2.0) as i32;
    v.signum() * 2f64.powi(e)
}

fn pow2_aff(a: &Aff) -> Aff {
    Aff { mat: Mat { rows: a.mat.rows.iter().map(|r| r.iter().map(|x| to_pow2(*x)).collect()).collect(), cols: a.mat.cols }, bias: a.bias.iter().map(|x| to_pow2(*x)).collect() }
}

fn pow2_tree(n: &RNode) -> RNode {
    match n {
        RNode::Leaf(a) => RNode::Leaf(pow2_aff(a)),
        RNode::Dec { pred, kids } => RNode::Dec { pred: pred.clone(), kids: kids.iter().map(|k| k.as_ref().map(pow2_tree)).collect() },
    }
}

type OpQ = fn(&Q, &Q) -> Q;

fn lift(a: &Ref, b: &Ref, op: OpQ) -> Ref {
    a.lift2(b, &move |x: &AffQ, y: &AffQ| x.zip_with(y, op))
}

pub fn run_case(c: &Case, ctx: &mut Ctx) -> CaseResult {
    let n = c.a.in_dim;
    let ar = c.a.resolve(&[]);
    let mut bspec = c.b.clone();
    bspec.anchors.extend(c.a.anchors.iter().cloned());
    let br = bspec.resolve(&[]);
    let brp = pow2_tree(&br);
    let at = ar.build::<2>(&c.a.order, &c.a.junk);
    let bt = br.build::<2>(&c.b.order, &c.b.junk);
    let btp = brp.build::<2>(&c.b.order, &c.b.junk);
    let (aref, bref, brefp) = (ar.to_ref(), br.to_ref(), brp.to_ref());
    ctx.class_if(!ar.is_total(), "partial_a");
    ctx.class_if(!br.is_total(), "partial_b");
    ctx.class(&format!("depth_a{}", ar.depth()));
    let anchors = c.a.all_anchors(&c.b.anchors);
    let inputs: Vec<Vec<Q>> = c.points.iter().map(|p| qv(&p.resolve(&anchors, n))).collect();
    let mode = EquivMode::exact();
    let mut judged_boundary = 0;
    let mut thin = 0;

    let ops: [(&str, OpQ); 4] = [("+", |x, y| x + y), ("-", |x, y| x - y), ("*", |x, y| x * y), ("/", |x, y| x / y)];
    for (name, opq) in ops {
        let (rhs_t, rhs_ref) = if name == "/" { (&btp, &brefp) } else { (&bt, &bref) };
        let expect = lift(&aref, rhs_ref, opq);
        if !expect.max_bits().map(|b| b <= 50).unwrap_or(false) {
            ctx.class("inexact_skipped");
            continue;
        }
        let variants: Vec<(&str, Result<AffTree<2>, String>)> = match name {
            "+" => vec![("&a op &b", guard(|| &at + rhs_t)), ("a op &b", guard(|| at.clone() + rhs_t)), ("a op b", guard(|| at.clone() + rhs_t.clone())), ("&a op b", guard(|| &at + rhs_t.clone()))],
            "-" => vec![("&a op &b", guard(|| &at - rhs_t)), ("a op &b", guard(|| at.clone() - rhs_t)), ("a op b", guard(|| at.clone() - rhs_t.clone())), ("&a op b", guard(|| &at - rhs_t.clone()))],
            "*" => vec![("&a op &b", guard(|| &at * rhs_t)), ("a op &b", guard(|| at.clone() * rhs_t)), ("a op b", guard(|| at.clone() * rhs_t.clone())), ("&a op b", guard(|| &at * rhs_t.clone()))],
            _ => vec![("&a op &b", guard(|| &at / rhs_t)), ("a op &b", guard(|| at.clone() / rhs_t)), ("a op b", guard(|| at.clone() / rhs_t.clone())), ("&a op b", guard(|| &at / rhs_t.clone()))],
        };
        for (vn, r) in variants {
            let r = r.map_err(|pm| Failure::new(format!("tree {name} tree ({vn}) panicked: {pm}")))?;
            let out = compare_tree_opts(&format!("tree {name} tree ({vn})"), &r, &expect, &inputs, &mode, true).map_err(|(m, d)| Failure::with(m, d))?;
            judged_boundary += out.on_boundary;
            thin += out.thin_exempt;
        }
    }
    // negation
    let r = must("neg", || -at.clone())?;
    let expect = aref.map_leaves(&|l| Ref::leaf(l.map(|q| -q)));
    compare_tree_opts("-tree", &r, &expect, &inputs, &mode, false).map_err(|(m, d)| Failure::with(m, d))?;

    // mixed forms with a plain affine function (same shape as the terminals), operand order matters
    let f = c.f.lib();
    let fq = c.f.q();
    let fp = pow2_aff(&c.f);
    let (fpl, fpq) = (fp.lib(), fp.q());
    let atp = pow2_tree(&ar).build::<2>(&c.a.order, &c.a.junk);
    let arefp = pow2_tree(&ar).to_ref();
    let mixed: Vec<(&str, Result<AffTree<2>, String>, Ref)> = vec![
        ("tree + aff", guard(|| at.clone() + f.clone()), aref.map_leaves(&|l| Ref::leaf(l.zip_with(&fq, |x, y| x + y)))),
        ("tree + &aff", guard(|| at.clone() + &f), aref.map_leaves(&|l| Ref::leaf(l.zip_with(&fq, |x, y| x + y)))),
        ("tree - aff", guard(|| at.clone() - f.clone()), aref.map_leaves(&|l| Ref::leaf(l.zip_with(&fq, |x, y| x - y)))),
        ("tree - &aff", guard(|| at.clone() - &f), aref.map_leaves(&|l| Ref::leaf(l.zip_with(&fq, |x, y| x - y)))),
        ("aff + tree", guard(|| f.clone() + at.clone()), aref.map_leaves(&|l| Ref::leaf(fq.zip_with(l, |x, y| x + y)))),
        ("&aff + tree", guard(|| &f + at.clone()), aref.map_leaves(&|l| Ref::leaf(fq.zip_with(l, |x, y| x + y)))),
        ("aff - tree", guard(|| f.clone() - at.clone()), aref.map_leaves(&|l| Ref::leaf(fq.zip_with(l, |x, y| x - y)))),
        ("&aff - tree", guard(|| &f - at.clone()), aref.map_leaves(&|l| Ref::leaf(fq.zip_with(l, |x, y| x - y)))),
        ("tree * aff", guard(|| at.clone() * &f), aref.map_leaves(&|l| Ref::leaf(l.zip_with(&fq, |x, y| x * y)))),
        ("aff * tree", guard(|| &f * at.clone()), aref.map_leaves(&|l| Ref::leaf(fq.zip_with(l, |x, y| x * y)))),
        ("tree / aff", guard(|| at.clone() / &fpl), aref.map_leaves(&|l| Ref::leaf(l.zip_with(&fpq, |x, y| x / y)))),
        ("aff / tree", guard(|| &f / atp.clone()), arefp.map_leaves(&|l| Ref::leaf(fq.zip_with(l, |x, y| x / y)))),
    ];
    for (name, r, expect) in mixed {
        let r = r.map_err(|pm| Failure::new(format!("{name} panicked: {pm}")))?;
        if !expect.max_bits().map(|b| b <= 50).unwrap_or(false) {
            continue;
        }
        compare_tree_opts(name, &r, &expect, &inputs, &mode, false).map_err(|(m, d)| Failure::with(m, d))?;
    }
    // one-row affine function against a tree with several outputs: ndarray broadcasts the single row (and bias)
    // over the rows of every terminal.  The mixed forms must agree with that whichever side the function is on; a
    // form that panics on such shapes is counted and not judged (the statement does not fix the shapes).
    if c.f.outdim() >= 2 {
        let f1 = Aff { mat: Mat { rows: vec![c.f.mat.rows[0].clone()], cols: c.f.mat.cols }, bias: vec![c.f.bias[0]] };
        let f1l = f1.lib();
        let fb = Aff { mat: Mat { rows: vec![c.f.mat.rows[0].clone(); c.f.outdim()], cols: c.f.mat.cols }, bias: vec![c.f.bias[0]; c.f.outdim()] };
        let fbq = fb.q();
        let forms: Vec<(&str, Result<AffTree<2>, String>, Ref)> = vec![
            ("tree + &aff (one-row aff, broadcast)", guard(|| at.clone() + &f1l), aref.map_leaves(&|l| Ref::leaf(l.zip_with(&fbq, |x, y| x + y)))),
            ("&aff + tree (one-row aff, broadcast)", guard(|| &f1l + at.clone()), aref.map_leaves(&|l| Ref::leaf(fbq.zip_with(l, |x, y| x + y)))),
            ("tree - &aff (one-row aff, broadcast)", guard(|| at.clone() - &f1l), aref.map_leaves(&|l| Ref::leaf(l.zip_with(&fbq, |x, y| x - y)))),
            ("&aff - tree (one-row aff, broadcast)", guard(|| &f1l - at.clone()), aref.map_leaves(&|l| Ref::leaf(fbq.zip_with(l, |x, y| x - y)))),
            ("aff * tree (one-row aff, broadcast)", guard(|| f1l.clone() * at.clone()), aref.map_leaves(&|l| Ref::leaf(fbq.zip_with(l, |x, y| x * y)))),
        ];
        for (name, r, expect) in forms {
            match r {
                Err(_) => ctx.class("broadcast_form_panics_not_judged"),
                Ok(r) => {
                    ctx.class("broadcast_mixed_form");
                    if expect.max_bits().map(|b| b <= 50).unwrap_or(false) {
                        compare_tree_opts(name, &r, &expect, &inputs, &mode, false).map_err(|(m, d)| Failure::with(m, d))?;
                    }
                }
            }
        }
    }
    ctx.count("inputs_on_boundary", judged_boundary as u64);
    ctx.count("thin_exempt", thin as u64);
    // non-commutative on the drawn data?
    let noncomm = ar.count() != br.count() || format!("{:?}", aref.cells().iter().map(|c| c.val.clone()).collect::<Vec<_>>()) != format!("{:?}", bref.cells().iter().map(|c| c.val.clone()).collect::<Vec<_>>());
    ctx.set_nontrivial(ar.num_decisions() >= 1 && br.num_decisions() >= 1 && noncomm);
    Ok(())
}

pub struct C07;

impl Property for C07 {
    type Case = Case;
    fn id(&self) -> &'static str {
        "C07"
    }
    fn rule(&self) -> String {
        "pairs of K=2 trees with equal input/output dimensions (dims 1..3 -> 1..2, depth <= 3, total/partial, shared anchors so that hyperplanes of both operands meet in exact points), operators + - * / in all four ownership variants, negation, and the twelve mixed forms with a plain affine function on either side; every result is compared with the coefficient-wise lifting of the reference operands on ALL full-dimensional cells and at exact boundary inputs (thin rule for the tree-tree operators, which prune on the fly; none for the affine forms). Divisors have non-zero power-of-two coefficients. Non-trivial = both operands have a decision and differ; distinct = distinct serialised cases".into()
    }
    fn assumptions(&self) -> Vec<String> {
        vec!["operands of equal shapes; divisor coefficients (matrix and bias) are non-zero powers of two so every quotient is exact and normal".into(), "the affine operand has the shape of the terminals (coefficient-wise operators)".into()]
    }
    fn cases(&self, tier: Tier) -> usize {
        tier.pick(2400, 60_000)
    }
    fn strategy(&self, tier: Tier) -> BoxedStrategy<Case> {
        let maxd = tier.pick(3u32, 4u32);
        (sized_wide(3, 5), sized(2, 4))
            .prop_flat_map(move |(n, p)| {
                let maxd = if n >= 8 { 2 } else { maxd };
                (
                    super::c02::tree_params_strategy(2, n, p, maxd).prop_flat_map(tree_spec),
                    super::c02::tree_params_strategy(2, n, p, maxd).prop_flat_map(tree_spec),
                    aff(p, n),
                    proptest::collection::vec(point_spec(n), 6..10),
                )
            })
            .prop_map(|(a, b, f, points)| Case { a, b, f, points })
            .boxed()
    }
    fn run(&self, case: &Case, ctx: &mut Ctx) -> CaseResult {
        run_case(case, ctx)
    }
}
