//! C02 — composition law: f.compose(g) is g after f, undefinedness included.

use crate::gen::*;
use crate::gen_tree::*;
use crate::pwl::{self, compare_tree, EquivMode, Ref};
use crate::runner::*;
use proptest::prelude::*;
use serde::{Deserialize, Serialize};
use serde_json::json;

#[derive(Clone, Debug, Serialize, Deserialize)]
pub struct Case {
    pub k4: bool,
    /// arity 8 (three predicate rows per decision); overrides `k4`
    #[serde(default)]
    pub k8: bool,
    pub f: TreeSpec,
    pub g: TreeSpec,
    /// arity 2 only: compose with this predefined tree (built in dimension out(f)) instead of `g` - activation
    /// trees have identity-like terminals, which generated trees never have, and f may then be 16..20 wide
    #[serde(default)]
    pub g_schema: Option<crate::schema::SchemaSpec>,
    pub a: Aff,
    pub points: Vec<PointSpec>,
}

pub fn tree_params_strategy(k: usize, in_dim: usize, out_dim: usize, max_depth: u32) -> impl Strategy<Value = TreeParams> {
    (
        prop_oneof![2 => Just(0u32), 17 => 1..=max_depth, 1 => (max_depth + 1)..=(max_depth + 2)],
        prop_oneof![1 => Just(100u32), 1 => Just(80u32)],
        prop_oneof![1 => Just(20u32), 1 => Just(70u32)],
    )
        .prop_map(move |(d, present_pct, pool_pct)| TreeParams { k, in_dim, out_dim, max_depth: d, present_pct, pool_pct })
}

fn schema_g_strategy() -> BoxedStrategy<Case> {
    // f: n -> m with m ordinary or wide (16..=20), g = a predefined activation / head tree in dimension m
    (1usize..=3, prop_oneof![3 => 1usize..=4, 1 => 16usize..=20], 1usize..=3)
        .prop_flat_map(|(n, m, q)| {
            // argmax over 16+ components is a tree of hundreds of nodes; the wide cases use the per-neuron
            // activations (their terminals are the identity-like 16..20 wide maps that matter here)
            let s = if m >= 16 { crate::schema::activation_spec().boxed() } else { crate::schema::schema_spec().boxed() };
            (
                tree_params_strategy(2, n, m, 2).prop_flat_map(tree_spec),
                s,
                aff(q, m),
                proptest::collection::vec(point_spec(n), 6..12),
            )
        })
        .prop_map(|(f, s, a, points)| {
            let g = TreeSpec { in_dim: f.out_dim, out_dim: f.out_dim, pool: vec![], anchors: vec![], root: TNode::Leaf(LeafSpec::Fresh(Aff::identity(f.out_dim))), order: vec![], junk: vec![], leaf_scale: 0 };
            Case { k4: false, k8: false, f, g, g_schema: Some(s), a, points }
        })
        .boxed()
}

fn strategy(tier: Tier) -> BoxedStrategy<Case> {
    prop_oneof![14 => tree_pair_strategy(tier), 1 => schema_g_strategy()].boxed()
}

fn tree_pair_strategy(tier: Tier) -> BoxedStrategy<Case> {
    let maxd = tier.pick(3u32, 4u32);
    (prop_oneof![10 => Just(2usize), 9 => Just(4usize), 1 => Just(8usize)], sized_wide(3, 5), sized(3, 5), sized(3, 4), 1usize..=3)
        .prop_flat_map(move |(k, n, m, p, q)| {
            // arity 8: up to 64 terminals per tree at depth 2 already
            let maxd = if n >= 8 && k > 2 { 1 } else if k == 8 || n >= 8 { 2 } else { maxd };
            (
                Just(k),
                tree_params_strategy(k, n, m, maxd).prop_flat_map(tree_spec),
                tree_params_strategy(k, m, p, maxd).prop_flat_map(tree_spec),
                aff(q, m),
                proptest::collection::vec(point_spec(n), 6..12),
            )
        })
        .prop_map(|(k, f, g, a, points)| Case { k4: k == 4, k8: k == 8, f, g, g_schema: None, a, points })
        .prop_flat_map(|c| (Just(c), 0u8..48, 20i8..=40))
        .prop_map(|(mut c, regime, e)| {
            // correlated scaling regimes (~4 % of the cases): every terminal map of f and every
            // predicate row of g are tiny (or huge) powers of two at the same time, so that products
            // reach 2^-80 .. 2^80 - exact in f64, but far outside any absolute tolerance
            fn scale_rows(n: &mut TNode, e: i8) {
                if let TNode::Dec { rows, kids } = n {
                    for r in rows.iter_mut() {
                        r.scale = e;
                    }
                    for k in kids.iter_mut().flatten() {
                        scale_rows(k, e);
                    }
                }
            }
            match regime {
                0 => {
                    c.f.leaf_scale = -e;
                    scale_rows(&mut c.g.root, -e.min(36));
                }
                1 => {
                    c.f.leaf_scale = e.min(30);
                    scale_rows(&mut c.g.root, e.min(30));
                }
                _ => {}
            }
            c
        })
        .boxed()
}

fn run_schema_g(c: &Case, s: &crate::schema::SchemaSpec, ctx: &mut Ctx) -> CaseResult {
    let (n, m) = (c.f.in_dim, c.f.out_dim);
    if matches!(s, crate::schema::SchemaSpec::Argmax | crate::schema::SchemaSpec::ClassChar { .. }) && m < 2 {
        ctx.class("schema_needs_dim2_skipped");
        return Ok(());
    }
    ctx.class("g_is_schema");
    ctx.class_if(m >= 16, "wide_middle_dimension");
    ctx.class(s.name());
    let fr = c.f.resolve(&[]);
    let fref = fr.to_ref();
    let f = fr.build::<2>(&c.f.order, &c.f.junk);
    let g = must("schema tree", || s.build(m))?;
    let gref = s.reference(m);
    let href = fref.then(&gref);
    if !s.is_exact() || !href.max_bits().map(|b| b <= 50).unwrap_or(false) || href.count_leaves() > 2000 {
        ctx.class("inexact_skipped");
        return Ok(());
    }
    let f_anchors = c.f.all_anchors(&[]);
    let inputs: Vec<Vec<crate::exact::Q>> = c.points.iter().map(|p| qv(&p.resolve(&f_anchors, n))).collect();
    let g_before = pwl::dump(&g);
    let mut h = f.clone();
    must("compose::<false,false>(schema)", || h.compose::<false, false>(&g))?;
    if pwl::dump(&g) != g_before {
        return Err(Failure::new("compose changed its right operand"));
    }
    let out = compare_tree("f.compose::<false,_>(predefined tree)", &h, &href, &inputs, &EquivMode::exact()).map_err(|(m, d)| Failure::with(m, d))?;
    ctx.count("inputs", out.inputs as u64);
    ctx.count("inputs_on_boundary", out.on_boundary as u64);
    ctx.set_nontrivial(fr.num_decisions() >= 1 && out.stats.fulldim_lhs >= 2);
    Ok(())
}

fn run_k<const K: usize>(c: &Case, ctx: &mut Ctx) -> CaseResult {
    let n = c.f.in_dim;
    let fr = c.f.resolve(&[]);
    let fref = fr.to_ref();
    let f_anchors = c.f.all_anchors(&[]);
    let images = anchor_images(&fref, &f_anchors);
    let gr = c.g.resolve(&images);
    let gref = gr.to_ref();
    let f = fr.build::<K>(&c.f.order, &c.f.junk);
    let g = gr.build::<K>(&c.g.order, &c.g.junk);
    ctx.class_if(!fr.is_total(), "partial_f");
    ctx.count("nodes_f", fr.count() as u64);
    ctx.count("nodes_g", gr.count() as u64);
    ctx.class(&format!("depth_f{}", fr.depth()));
    ctx.class_if(!gr.is_total(), "partial_g");
    ctx.class_if(fr.num_decisions() == 0, "leaf_root_f");
    ctx.class_if(gr.num_decisions() == 0, "leaf_root_g");
    ctx.class_if(f.tree.node_indices().enumerate().any(|(i, idx)| i != idx), "index_holes_f");

    let inputs: Vec<Vec<crate::exact::Q>> = c.points.iter().map(|p| qv(&p.resolve(&f_anchors, n))).collect();
    let mode = EquivMode::exact();

    let href = fref.then(&gref);
    let exact_ok = href.max_bits().map(|b| b <= 50).unwrap_or(false);
    if !exact_ok {
        ctx.class("inexact_skipped");
        return Ok(());
    }

    let g_before = pwl::dump(&g);
    let f_before = pwl::dump(&f);
    let mut h = f.clone();
    must("compose::<false,false>", || h.compose::<false, false>(&g))?;
    if pwl::dump(&g) != g_before {
        return Err(Failure::new("compose changed its right operand"));
    }
    // surviving nodes of f keep their indices; old decisions are untouched
    for nd in &f_before {
        let now = h.tree.tree_node(nd.idx).map_err(|_| Failure::new(format!("node {} of the left operand no longer exists after compose", nd.idx)))?;
        if now.parent != nd.parent {
            return Err(Failure::new(format!("node {} changed its parent from {:?} to {:?}", nd.idx, nd.parent, now.parent)));
        }
        if !nd.isleaf {
            let same = now.children.to_vec() == nd.children
                && now.value.aff.mat.iter().map(|x| x.to_bits()).collect::<Vec<_>>() == nd.mat
                && now.value.aff.bias.iter().map(|x| x.to_bits()).collect::<Vec<_>>() == nd.bias;
            if !same {
                return Err(Failure::new(format!("decision {} of the left operand was modified by compose", nd.idx)));
            }
        }
    }
    let out = compare_tree("f.compose::<false,_>(g)", &h, &href, &inputs, &mode).map_err(|(m, d)| Failure::with(m, d))?;
    ctx.count("inputs", out.inputs as u64);
    ctx.count("inputs_on_boundary", out.on_boundary as u64);
    ctx.count("inputs_multi_boundary", out.multi_boundary as u64);
    ctx.count("inputs_undefined", out.undefined_inputs as u64);
    ctx.count("cells_fulldim", out.stats.fulldim_lhs as u64);
    ctx.count("cell_pairs", out.stats.pairs as u64);

    // apply_func(a) is composition with an affine g
    let mut h2 = f.clone();
    let al = c.a.lib();
    must("apply_func", || h2.apply_func(&al))?;
    let aref = fref.then(&Ref::leaf(c.a.q()));
    if aref.max_bits().map(|b| b <= 50).unwrap_or(false) {
        compare_tree("f.apply_func(a)", &h2, &aref, &inputs, &mode).map_err(|(m, d)| Failure::with(m, d))?;
        // structure: apply_func only touches terminals
        for nd in &f_before {
            let now = h2.tree.tree_node(nd.idx).map_err(|_| Failure::new("apply_func removed a node"))?;
            if now.children.to_vec() != nd.children || now.parent != nd.parent {
                return Err(Failure::with("apply_func changed the tree structure", json!({"node": nd.idx})));
            }
        }
        if h2.len() != f.len() {
            return Err(Failure::new("apply_func changed the number of nodes"));
        }
    }

    let nd_f = fr.num_decisions();
    let nd_g = gr.num_decisions();
    let nt = ((nd_f >= 1 && nd_g >= 1) || (nd_f == 0 && nd_g >= 2) || (nd_g == 0 && nd_f >= 2)) && out.on_boundary >= 1;
    ctx.set_nontrivial(nt);
    Ok(())
}

pub struct C02;

impl Property for C02 {
    type Case = Case;
    fn id(&self) -> &'static str {
        "C02"
    }
    fn rule(&self) -> String {
        "pairs (f,g) of generated trees with out(f)=in(g), dims 1..3, depth <= 3 (thorough 4), K in {2,4} (two-row decisions, four children), each operand total / partial / leaf-rooted, arena layouts with holes and reused indices, g's hyperplanes planted through f(anchor); 1 case in 15 composes with a predefined tree (activation / head schema) instead of a generated g, in a middle dimension of 1-4 or 16-20; inputs rarely 8-12 dimensional; arity 8 included; the composed tree is compared with the reference composition (substitution of f's leaf maps into g's guards) on ALL full-dimensional cells by exact LP and at exact boundary inputs via evaluate(); g must be unchanged, f's nodes keep index/parent, f's decisions are untouched; apply_func(a) likewise. Non-trivial = both operands have a decision (or one is leaf-rooted and the other has >= 2) AND >= 1 input lies exactly on a hyperplane; distinct = distinct serialised cases".into()
    }
    fn assumptions(&self) -> Vec<String> {
        vec![
            "dyadic data keep the library's arithmetic exact; a case whose reference coefficients need more than 50 mantissa bits is skipped and counted (inexact_skipped)".into(),
            "operands have matching dimensions; decisions have 1 row (K=2) or 1..2 rows (K=4)".into(),
        ]
    }
    fn cases(&self, tier: Tier) -> usize {
        tier.pick(6000, 100_000)
    }
    fn strategy(&self, tier: Tier) -> BoxedStrategy<Case> {
        strategy(tier)
    }
    fn run(&self, case: &Case, ctx: &mut Ctx) -> CaseResult {
        if let (Some(s), false, false) = (&case.g_schema, case.k4, case.k8) {
            return run_schema_g(case, s, ctx);
        }
        ctx.class(if case.k8 { "k8" } else if case.k4 { "k4" } else { "k2" });
        if case.k8 {
            run_k::<8>(case, ctx)
        } else if case.k4 {
            run_k::<4>(case, ctx)
        } else {
            run_k::<2>(case, ctx)
        }
    }
}
