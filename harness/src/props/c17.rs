//! C17 — predefined trees equal their mathematical definitions everywhere.

use crate::exact::{AffQ, Q};
use crate::gen::*;
use crate::gen_tree::*;
use crate::pwl::{compare_tree, EquivMode, Ref};
use crate::runner::*;
use crate::schema::*;
use affinitree::pwl::afftree::AffTree;
use ndarray::Array1;
use proptest::prelude::*;
use serde::{Deserialize, Serialize};

#[derive(Clone, Debug, Serialize, Deserialize)]
pub struct InSpec {
    pub base: Vec<f64>,
    pub bp: u8,
    pub off: i8,
    pub alpha: Vec<u8>,
}

#[derive(Clone, Debug, Serialize, Deserialize)]
pub enum Case {
    Schema { dim: usize, spec: SchemaSpec, inputs: Vec<InSpec> },
    FromPoly { p: PolySpec, ft: Aff, ff: Option<Aff>, points: Vec<PointSpec> },
    Slice {
        t: TreeSpec,
        refp: Vec<Option<f64>>,
        points: Vec<PointSpec>,
        /// run infeasible_elimination before remove_axes so that feasibility verdicts and witnesses (of the old
        /// dimension) are cached when the axes are removed
        #[serde(default)]
        prune: bool,
    },
    /// data-sized dimensions (520..1300): chains of more than 1024 decisions, judged by evaluation only
    /// (kind 0 inf_norm, 1 class_characterization, 2 from_poly on a hyperrectangle)
    Huge { kind: u8, dim: u16, sel: u16, lo: i8, width: u8, probes: Vec<(u16, i8)> },
}

fn in_spec(dim: usize) -> impl Strategy<Value = InSpec> {
    (
        lattice(dim),
        any::<u8>(),
        prop_oneof![3 => Just(0i8), 1 => Just(1), 1 => Just(-1), 1 => Just(2), 1 => Just(-2), 1 => Just(8), 1 => Just(-8)],
        proptest::collection::vec(0u8..3, dim),
    )
        .prop_map(|(base, bp, off, alpha)| InSpec { base, bp, off, alpha })
}

const ALPHABET: [f64; 3] = [-0.5, 0.0, 1.0];

fn resolve_input(spec: &SchemaSpec, dim: usize, i: &InSpec) -> Vec<f64> {
    let mut x = i.base.clone();
    match spec {
        SchemaSpec::Argmax | SchemaSpec::ClassChar { .. } => {
            for j in 0..dim {
                x[j] = ALPHABET[i.alpha[j] as usize % 3];
            }
            // every third input keeps one free lattice coordinate
            if i.bp % 3 == 0 {
                let j = i.bp as usize % dim;
                x[j] = i.base[j];
            }
        }
        SchemaSpec::InfNorm { .. } => {
            let bps = spec.breakpoints();
            for j in 0..dim {
                let b = bps[(i.alpha[j] as usize + i.bp as usize) % bps.len()];
                x[j] = b + (i.off as f64 / 4.0) * (if i.alpha[j] == 0 { 1.0 } else { 0.0 }) - if i.alpha[j] == 2 { 0.25 } else { 0.0 };
            }
        }
        _ => {
            let mut bps = spec.breakpoints();
            if bps.is_empty() {
                // no breakpoint at all (hard shrink with a negative lambda): probe around 0 and -lambda
                bps = vec![0.0, 1.0, -1.0];
            }
            let row = spec.row(dim).unwrap();
            x[row] = bps[i.bp as usize % bps.len()] + i.off as f64 / 4.0;
        }
    }
    x
}

fn strategy(tier: Tier) -> BoxedStrategy<Case> {
    let maxdim = tier.pick(6usize, 8usize);
    let schema = (schema_spec_x(true), sized(maxdim, maxdim + 4))
        .prop_flat_map(|(spec, d)| {
            let dim = d.max(spec.min_dim());
            (Just(spec), Just(dim), proptest::collection::vec(in_spec(dim), 6..14))
        })
        .prop_map(|(spec, dim, inputs)| Case::Schema { dim, spec, inputs });
    let from_poly = (sized(3, 5), sized(3, 4))
        .prop_flat_map(|(n, p)| (poly_spec(n, 1, 5), aff(p, n), prop::option::weighted(0.6, aff(p, n)), proptest::collection::vec(point_spec(n), 6..12)))
        .prop_map(|(p, ft, ff, points)| Case::FromPoly { p, ft, ff, points });
    let slice = (2usize..=4, 1usize..=2)
        .prop_flat_map(|(n, p)| {
            (
                super::c02::tree_params_strategy(2, n, p, 3).prop_flat_map(tree_spec),
                proptest::collection::vec(prop::option::weighted(0.5, (-8i32..=8).prop_map(|k| k as f64 / 2.0)), n),
                proptest::collection::vec(point_spec(n), 6..12),
                any::<bool>(),
            )
        })
        .prop_map(|(t, mut refp, points, prune)| {
            if refp.iter().all(|r| r.is_some()) {
                refp[0] = None;
            }
            Case::Slice { t, refp, points, prune }
        });
    let huge = (0u8..3, 520u16..=1300, any::<u16>(), -8i8..=8, any::<u8>(), proptest::collection::vec((any::<u16>(), -4i8..=4), 2..6))
        .prop_map(|(kind, dim, sel, lo, width, probes)| Case::Huge { kind, dim, sel, lo, width, probes });
    prop_oneof![180 => schema, 60 => from_poly, 60 => slice, 1 => huge].boxed()
}

fn report(ctx: &mut Ctx, out: &crate::pwl::CompareOut) {
    ctx.count("inputs", out.inputs as u64);
    ctx.count("inputs_on_boundary", out.on_boundary as u64);
    ctx.count("inputs_multi_boundary", out.multi_boundary as u64);
    ctx.count("cells_fulldim", out.stats.fulldim_lhs as u64);
}

/// Predefined trees in data-sized dimensions.  A cell-by-cell comparison is out of reach there (and adds nothing:
/// the structure is the one judged exhaustively in small dimensions); what changes with the dimension is the
/// length of the decision chain, so the tree is evaluated at probe inputs and compared with the definition.
fn run_huge(kind: u8, dim: usize, sel: u16, lo: i8, width: u8, probes: &[(u16, i8)], ctx: &mut Ctx) -> CaseResult {
    use affinitree::distill::schema;
    use affinitree::linalg::affine::{AffFunc, Polytope};
    let dim = dim.clamp(520, 1300);
    let lo = lo as f64 / 4.0;
    let hi = lo + (1 + width % 16) as f64 / 4.0;
    let clazz = pick(sel, dim);
    ctx.class("huge_dimension_evaluation_only");
    let (tree, name): (AffTree<2>, String) = match kind % 3 {
        0 => (must("inf_norm", || schema::inf_norm(dim, Some(lo), Some(hi)))?, format!("inf_norm({dim}, {lo}, {hi})")),
        1 => (must("class_characterization", || schema::class_characterization(dim, clazz))?, format!("class_characterization({dim}, {clazz})")),
        _ => {
            let intervals: Vec<(f64, f64)> = vec![(lo, hi); dim];
            let poly = must("hyperrectangle", || Polytope::hyperrectangle(&intervals))?;
            let t = must("from_poly", || AffTree::<2>::from_poly(poly, AffFunc::constant(dim, 1.0), Some(&AffFunc::constant(dim, 0.0))))?
                .map_err(|e| Failure::new(format!("from_poly: {e}")))?;
            (t, format!("from_poly(hyperrectangle({dim}; {lo}, {hi}), 1, 0)"))
        }
    };
    ctx.class_if(tree.tree.depth() > 1024, "path_longer_than_1024");
    // probe inputs: the all-inside / class-maximal point, then one component moved
    let mid = (lo + hi) / 2.0;
    let mut inputs: Vec<Vec<f64>> = Vec::new();
    let base: Vec<f64> = if kind % 3 == 1 { (0..dim).map(|j| if j == clazz { 1.0 } else { 0.0 }).collect() } else { vec![mid; dim] };
    inputs.push(base.clone());
    for (j, d) in probes.iter().take(6) {
        let mut x = base.clone();
        let jj = if *j % 3 == 0 { dim - 1 - (*j as usize / 3) % 4 } else { pick(*j, dim) };
        let delta = *d as f64 / 4.0;
        if kind % 3 == 1 {
            x[jj] = 1.0 + delta; // a tie for delta = 0, a larger / smaller component otherwise
        } else {
            x[jj] = match d.rem_euclid(4) {
                0 => lo,
                1 => hi,
                2 => hi + 0.25,
                _ => lo - 0.25,
            };
        }
        inputs.push(x);
    }
    for x in &inputs {
        let expect: f64 = match kind % 3 {
            1 => {
                let m = x.iter().cloned().fold(f64::NEG_INFINITY, f64::max);
                if x[clazz] >= m {
                    1.0
                } else {
                    0.0
                }
            }
            _ => {
                if x.iter().all(|v| *v >= lo && *v <= hi) {
                    1.0
                } else {
                    0.0
                }
            }
        };
        let got = must("evaluate", || tree.evaluate(&Array1::from_vec(x.clone())))?;
        let ok = match &got {
            Some(v) => v.len() == 1 && v[0] == expect,
            None => false,
        };
        if !ok {
            let differing: Vec<(usize, f64)> = x.iter().enumerate().filter(|(j, v)| **v != base[*j]).map(|(j, v)| (j, *v)).collect();
            return Err(Failure::new(format!(
                "{name}: evaluate returned {:?}, the definition gives [{expect}] (input = base point with components {differing:?} changed)",
                got.map(|v| v.to_vec())
            )));
        }
    }
    ctx.count("huge_inputs", inputs.len() as u64);
    ctx.set_nontrivial(inputs.len() >= 3);
    Ok(())
}

pub fn run_case(c: &Case, ctx: &mut Ctx) -> CaseResult {
    if let Case::Huge { kind, dim, sel, lo, width, probes } = c {
        return run_huge(*kind, *dim as usize, *sel, *lo, *width, probes, ctx);
    }
    match c {
        Case::Schema { dim, spec, inputs } => {
            ctx.class(spec.name());
            ctx.class(&format!("dim{dim}"));
            let t = must(&format!("{}({dim})", spec.name()), || spec.build(*dim))?;
            let r = spec.reference(*dim);
            let xs: Vec<Vec<Q>> = inputs.iter().map(|i| qv(&resolve_input(spec, *dim, i))).collect();
            let mode = if spec.is_exact() { EquivMode::exact() } else { EquivMode { ball: None, tol: 1e-12 } };
            if t.in_dim != *dim {
                return Err(Failure::new(format!("{}: in_dim {} expected {dim}", spec.name(), t.in_dim)));
            }
            let od = crate::pwl::well_formed(&t, Some(spec.out_dim(*dim))).map_err(|e| Failure::new(format!("{}: {e}", spec.name())))?;
            let _ = od;
            let out = compare_tree(&format!("{spec:?} in dimension {dim}"), &t, &r, &xs, &mode).map_err(|(m, d)| Failure::with(m, d))?;
            report(ctx, &out);
            ctx.set_nontrivial(out.on_boundary >= 1);
            Ok(())
        }
        Case::FromPoly { p, ft, ff, points } => {
            ctx.class("from_poly");
            ctx.class(if ff.is_some() { "from_poly_else" } else { "from_poly_partial" });
            let n = p.dim;
            let (pa, _) = p.resolve();
            let rows = aff_rows(&pa.q());
            let ffl = ff.as_ref().map(|a| a.lib());
            let t = must("from_poly", || AffTree::<2>::from_poly(pa.poly(), ft.lib(), ffl.as_ref()))?
                .map_err(|e| Failure::new(format!("from_poly rejected matching dimensions: {e}")))?;
            let no = match ff {
                Some(a) => Ref::leaf(a.q()),
                None => Ref::undef(),
            };
            let r = Ref::on_polytope(&rows, Ref::leaf(ft.q()), no);
            let xs: Vec<Vec<Q>> = points.iter().map(|s| qv(&s.resolve(&p.anchors, n))).collect();
            let out = compare_tree("from_poly", &t, &r, &xs, &EquivMode::exact()).map_err(|(m, d)| Failure::with(m, d))?;
            report(ctx, &out);
            ctx.set_nontrivial(out.on_boundary >= 1 && rows.len() >= 2);
            Ok(())
        }
        Case::Slice { t, refp, points, prune } => {
            ctx.class("slice_remove_axes");
            ctx.class_if(*prune, "slice_pruned_before_remove_axes");
            let n = t.in_dim;
            let tr = t.resolve(&[]);
            let tref = tr.to_ref();
            let tree = tr.build::<2>(&t.order, &t.junk);
            let keep: Vec<usize> = (0..n).filter(|i| refp[*i].is_none()).collect();
            let k = keep.len();
            let refarr = Array1::from_iter(refp.iter().map(|r| r.unwrap_or(f64::NAN)));
            let mask = Array1::from_iter(refp.iter().map(|r| r.is_none()));
            let mut s = must("from_slice", || AffTree::<2>::from_slice(&refarr))?;
            must("compose(slice, T)", || s.compose::<false, false>(&tree))?;
            let mut cached = 0usize;
            if *prune {
                must("infeasible_elimination (before remove_axes)", || s.infeasible_elimination())?;
                cached = s.tree.node_iter().filter(|(_, nd)| !nd.value.state.is_indetermined()).count();
                ctx.class_if(cached > 0, "slice_states_cached_before_remove_axes");
            }
            must("remove_axes", || s.remove_axes(&mask))?.map_err(|e| Failure::new(format!("remove_axes rejected a mask of the right length: {e}")))?;
            if s.in_dim != k {
                return Err(Failure::new(format!("after remove_axes in_dim is {} expected {k}", s.in_dim)));
            }
            // embed: R^k -> R^n
            let mut mat = vec![vec![Q::zero(); k]; n];
            let mut bias = vec![Q::zero(); n];
            for (pos, &i) in keep.iter().enumerate() {
                mat[i][pos] = Q::one();
            }
            for i in 0..n {
                if let Some(v) = refp[i] {
                    bias[i] = Q::from_f64(v);
                }
            }
            let embed = AffQ::new(mat, bias, k);
            let r = tref.substitute(&embed);
            if !r.max_bits().map(|b| b <= 50).unwrap_or(false) {
                ctx.class("inexact_skipped");
                return Ok(());
            }
            let anchors = t.all_anchors(&[]);
            let xs: Vec<Vec<Q>> = points
                .iter()
                .map(|sp| {
                    let full = sp.resolve(&anchors, n);
                    keep.iter().map(|i| Q::from_f64(full[*i])).collect()
                })
                .collect();
            let out = compare_tree("from_slice + compose + remove_axes", &s, &r, &xs, &EquivMode::exact()).map_err(|(m, d)| Failure::with(m, d))?;
            report(ctx, &out);
            // whatever feasibility verdicts / witnesses the tree carries after remove_axes must be sound for
            // the tree as it is now (witnesses of the old dimension are not), and further work on it must
            // neither panic nor change the function
            crate::histcheck::check_caches(&s, "from_slice + compose + elimination + remove_axes")?;
            if *prune {
                must("infeasible_elimination (after remove_axes)", || s.infeasible_elimination())?;
                crate::histcheck::check_caches(&s, "elimination after remove_axes")?;
                let out = compare_tree("elimination after remove_axes", &s, &r, &xs, &EquivMode::exact()).map_err(|(m, d)| Failure::with(m, d))?;
                report(ctx, &out);
            }
            let _ = cached;
            ctx.set_nontrivial(tr.num_decisions() >= 1 && k < n);
            Ok(())
        }
        Case::Huge { .. } => unreachable!("handled above"),
    }
}

pub struct C17;

impl Property for C17 {
    type Case = Case;
    fn id(&self) -> &'static str {
        "C17"
    }
    fn rule(&self) -> String {
        "every schema generator (ReLU, leaky ReLU, hard tanh, hard shrink, hard sigmoid, threshold, argmax, class_characterization, inf_norm) in dims 1..6 (thorough 1..8; >= 2 for argmax/class), every row/class, dyadic parameters (alpha incl. 0, negative, > 1; min <= max incl. equal; lambda >= 0), compared with its textbook definition on ALL full-dimensional cells by exact LP and by evaluate() at inputs whose relevant component is a breakpoint, a breakpoint +- 1/4, +- 1/2, +- 2 (argmax/class: 3-letter alphabet, ties everywhere); from_poly with/without else-branch against the polytope indicator; from_slice+compose+remove_axes against T(embed(y)); hard shrink also with negative lambda (identity); 1 case in 300: inf_norm / class_characterization / from_poly(hyperrectangle) in dimensions 520-1300 judged by evaluation at probe inputs. Non-trivial = at least one input exactly on a breakpoint/tie (slice: a decision and a removed axis); distinct = distinct serialised cases".into()
    }
    fn assumptions(&self) -> Vec<String> {
        vec![
            "hard sigmoid uses 1/6: compared with 1e-12 relative tolerance on coefficients and values; all others exactly".into(),
            "hard shrink textbook definition: x if |x| > lambda else 0 (PyTorch Hardshrink)".into(),
            "from_poly gets >= 1 row; inf_norm gets >= 1 bound; remove_axes keeps >= 1 axis".into(),
        ]
    }
    fn cases(&self, tier: Tier) -> usize {
        tier.pick(40000, 400_000)
    }
    fn strategy(&self, tier: Tier) -> BoxedStrategy<Case> {
        strategy(tier)
    }
    fn run(&self, case: &Case, ctx: &mut Ctx) -> CaseResult {
        run_case(case, ctx)
    }
}
