//! C16 — affine functions obey their algebra and named constructors their names.

use crate::exact::{AffQ, QVec, Q};
use crate::gen::*;
use crate::runner::*;
use affinitree::linalg::affine::{AffFunc, PolyRepr, Polytope};
use ndarray::Array1;
use proptest::prelude::*;
use serde::{Deserialize, Serialize};
use serde_json::json;

#[derive(Clone, Debug, Serialize, Deserialize)]
pub struct Case {
    pub f: Aff, // p x m
    pub h: Aff, // p x m
    pub g: Aff, // m x n
    pub d: Aff, // p x m, all entries non-zero powers of two (divisor)
    pub x: Vec<f64>,
    pub y: Vec<f64>,
    pub zero_rows: Vec<bool>,
    pub zero_cols: Vec<bool>,
    pub rm: Vec<bool>,
    pub idx: u16,
    pub idx2: u16,
    pub scal: f64,
    pub scalars: Vec<f64>,
    pub offset: Vec<f64>,
    pub slice_mask: Vec<bool>,
    pub perm: Mat,
    /// rows of f whose bias is replaced by a.y (hyperplane through y) for the PolyRepr checks
    pub through: Vec<bool>,
}

fn strategy(maxdim: usize) -> BoxedStrategy<Case> {
    (sized(maxdim, maxdim + 6), sized(maxdim, maxdim + 6), sized(maxdim, maxdim + 6))
        .prop_flat_map(|(n, m, p)| {
            (
                (aff(p, m), aff(p, m), aff(m, n), aff_of(p, m, pow2_nonzero().boxed())),
                (lattice(n), lattice(m)),
                (
                    proptest::collection::vec(prop::bool::weighted(0.2), p),
                    proptest::collection::vec(prop::bool::weighted(0.25), m),
                    proptest::collection::vec(prop::bool::weighted(0.3), p),
                ),
                (any::<u16>(), any::<u16>(), nice()),
                (vec_of(m, nice().boxed()), vec_of(m, nice().boxed()), proptest::collection::vec(any::<bool>(), m)),
                signed_perm(m),
                proptest::collection::vec(prop::bool::weighted(0.4), p),
            )
        })
        .prop_map(|((f, h, g, d), (x, y), (zero_rows, zero_cols, rm), (idx, idx2, scal), (scalars, offset, slice_mask), perm, through)| Case {
            f,
            h,
            g,
            d,
            x,
            y,
            zero_rows,
            zero_cols,
            rm,
            idx,
            idx2,
            scal,
            scalars,
            offset,
            slice_mask,
            perm,
            through,
        })
        .boxed()
}

macro_rules! chk {
    ($cond:expr, $($arg:tt)*) => {
        if !($cond) {
            return Err(Failure::new(format!($($arg)*)));
        }
    };
}

fn rem_q(a: &Q, b: &Q) -> Q {
    // truncated remainder as in f64 `%`
    let q = (a / b).to_f64().trunc();
    a - &(&Q::from_f64(q) * b)
}

fn concat(a: &QVec, b: &QVec) -> QVec {
    let mut v = a.clone();
    v.extend(b.iter().cloned());
    v
}

pub fn run_case(c: &Case, ctx: &mut Ctx) -> CaseResult {
    let (p, m, n) = (c.f.outdim(), c.f.indim(), c.g.indim());
    let f = c.f.lib();
    let h = c.h.lib();
    let g = c.g.lib();
    let d = c.d.lib();
    let (fq, hq, gq, dq) = (c.f.q(), c.h.q(), c.g.q(), c.d.q());
    let (x, y) = (arr(&c.x), arr(&c.y));
    let (xq, yq) = (qv(&c.x), qv(&c.y));

    // --- apply / compose / stack
    let fy = must("apply", || f.apply(&y))?;
    chk!(vec_eq(fy.as_slice().unwrap(), &fq.apply(&yq)), "apply: f(y) = {fy:?} differs from exact {:?}", fq.apply(&yq));
    let comp = must("compose", || f.compose(&g))?;
    let expect = fq.apply(&gq.apply(&xq));
    let got = comp.apply(&x);
    chk!(vec_eq(got.as_slice().unwrap(), &expect), "compose(f,g)(x) = {got:?} but f(g(x)) = {expect:?}");
    chk!(aff_eq(&comp, &fq.compose(&gq)), "compose(f,g) coefficients differ from the exact composition");
    let comp_v = must("compose on views", || f.view().compose(&g.view()))?;
    chk!(comp_v == comp, "compose on views differs from compose on owned values");
    let st = must("stack", || f.stack(&h))?;
    let got = st.apply(&y);
    let expect = concat(&fq.apply(&yq), &hq.apply(&yq));
    chk!(vec_eq(got.as_slice().unwrap(), &expect), "stack(f,h)(y) = {got:?}, expected concatenation {expect:?}");
    chk!(st.outdim() == 2 * p && st.indim() == m, "stack has wrong shape");

    // --- element-wise operators, all ownership variants
    type OpQ = fn(&Q, &Q) -> Q;
    let ops: Vec<(&str, OpQ, bool)> = vec![
        ("+", |a, b| a + b, false),
        ("-", |a, b| a - b, false),
        ("*", |a, b| a * b, false),
        ("/", |a, b| a / b, true),
        ("%", |a, b| rem_q(a, b), true),
    ];
    for (name, opq, needs_div) in ops {
        let (rhs, rq) = if needs_div { (&d, &dq) } else { (&h, &hq) };
        let expect = fq.zip_with(rq, opq);
        let variants: Vec<(&str, Result<AffFunc, String>)> = match name {
            "+" => vec![
                ("&f op &g", guard(|| &f + rhs)),
                ("f op g", guard(|| f.clone() + rhs.clone())),
                ("f op &g", guard(|| f.clone() + rhs)),
                ("view op view", guard(|| &f.view() + &rhs.view())),
            ],
            "-" => vec![
                ("&f op &g", guard(|| &f - rhs)),
                ("f op g", guard(|| f.clone() - rhs.clone())),
                ("f op &g", guard(|| f.clone() - rhs)),
                ("view op view", guard(|| &f.view() - &rhs.view())),
            ],
            "*" => vec![
                ("&f op &g", guard(|| &f * rhs)),
                ("f op g", guard(|| f.clone() * rhs.clone())),
                ("f op &g", guard(|| f.clone() * rhs)),
                ("view op view", guard(|| &f.view() * &rhs.view())),
            ],
            "/" => vec![
                ("&f op &g", guard(|| &f / rhs)),
                ("f op g", guard(|| f.clone() / rhs.clone())),
                ("f op &g", guard(|| f.clone() / rhs)),
                ("view op view", guard(|| &f.view() / &rhs.view())),
            ],
            _ => vec![
                ("&f op &g", guard(|| &f % rhs)),
                ("f op g", guard(|| f.clone() % rhs.clone())),
                ("f op &g", guard(|| f.clone() % rhs)),
                ("view op view", guard(|| &f.view() % &rhs.view())),
            ],
        };
        for (vn, r) in variants {
            let r = r.map_err(|pm| Failure::new(format!("operator {name} ({vn}) panicked: {pm}")))?;
            chk!(aff_eq(&r, &expect), "operator {name} ({vn}) is not coefficient-wise: got {:?} expected {:?}", r, expect);
            if name == "+" || name == "-" {
                let got = r.apply(&y);
                let (a, b) = (fq.apply(&yq), rq.apply(&yq));
                let e: QVec = a.iter().zip(&b).map(|(a, b)| if name == "+" { a + b } else { a - b }).collect();
                chk!(vec_eq(got.as_slice().unwrap(), &e), "(f {name} g)(y) is not the point-wise result");
            }
        }
    }
    let negq = fq.map(|a| -a);
    for (vn, r) in [("-f", guard(|| -f.clone())), ("-&f", guard(|| -&f)), ("negate", guard(|| f.clone().negate()))] {
        let r = r.map_err(|pm| Failure::new(format!("negation ({vn}) panicked: {pm}")))?;
        chk!(aff_eq(&r, &negq), "negation ({vn}) wrong");
        let got = r.apply(&y);
        let e: QVec = fq.apply(&yq).iter().map(|a| -a).collect();
        chk!(vec_eq(got.as_slice().unwrap(), &e), "(-f)(y) != -(f(y))");
    }

    // --- row / row_iter / from_row_iter / view / to_owned / conversions
    let fyq = fq.apply(&yq);
    for i in 0..p {
        let r = must("row", || f.row(i).to_owned())?;
        chk!(r.outdim() == 1 && r.indim() == m, "row({i}) has shape {}x{}", r.outdim(), r.indim());
        let got = r.apply(&y);
        chk!(vec_eq(got.as_slice().unwrap(), &[fyq[i].clone()]), "row({i})(y) != f(y)[{i}]");
    }
    let rows: Vec<AffFunc> = f.row_iter().map(|r| r.to_owned()).collect();
    chk!(rows.len() == p, "row_iter yields {} rows for {} outputs", rows.len(), p);
    for (i, r) in rows.iter().enumerate() {
        chk!(*r == f.row(i).to_owned(), "row_iter item {i} differs from row({i})");
    }
    let rebuilt = must("from_row_iter", || {
        AffFunc::from_row_iter(m, p, f.mat.outer_iter().zip(f.bias.iter()).map(|(r, b)| (r, b)))
    })?;
    chk!(rebuilt == f, "from_row_iter(rows of f) != f");
    chk!(f.view().to_owned() == f, "view().to_owned() != f");
    let fv = f.view().apply(&y);
    chk!(fv == fy, "view().apply differs");
    chk!(f.as_polytope().as_function() == f, "as_polytope().as_function() != f");
    chk!(Polytope::new(f.clone()) == f.as_polytope(), "Polytope::new(f) != f.as_polytope()");

    // --- remove_rows
    let rm_idx: Vec<usize> = (0..p).filter(|i| c.rm[*i]).collect();
    let kept: Vec<usize> = (0..p).filter(|i| !c.rm[*i]).collect();
    let r = must("remove_rows", || f.remove_rows(rm_idx.clone()))?;
    chk!(r.outdim() == kept.len() && r.indim() == m, "remove_rows shape wrong");
    let got = r.apply(&y);
    let e: QVec = kept.iter().map(|i| fyq[*i].clone()).collect();
    chk!(vec_eq(got.as_slice().unwrap(), &e), "remove_rows({rm_idx:?}) does not keep the other components in order");

    // --- planted zero rows / columns
    let mut fz = c.f.clone();
    for i in 0..p {
        if c.zero_rows[i] {
            fz.mat.rows[i] = vec![0.0; m];
            fz.bias[i] = 0.0;
        }
    }
    for j in 0..m {
        if c.zero_cols[j] {
            for i in 0..p {
                fz.mat.rows[i][j] = 0.0;
            }
        }
    }
    // the same planted matrix once more with every entry multiplied by 2^-60 (one case in four): all non-zero
    // entries are then far below f64::EPSILON but still not zero, so "is this row/column zero?" must not be
    // answered with an absolute tolerance.  (Exact: powers of two; the sub-check is structural.)
    let tiny = c.idx % 4 == 0;
    ctx.class_if(tiny, "zero_rows_cols_at_scale_2^-60");
    if tiny {
        let k = 2f64.powi(-60);
        for r in fz.mat.rows.iter_mut() {
            for v in r.iter_mut() {
                *v *= k;
            }
        }
        for v in fz.bias.iter_mut() {
            *v *= k;
        }
    }
    let fzl = fz.lib();
    let fzq = fz.q();
    let keep_rows: Vec<usize> = (0..p).filter(|i| !(fz.mat.rows[*i].iter().all(|v| *v == 0.0) && fz.bias[*i] == 0.0)).collect();
    let r = must("remove_zero_rows", || fzl.remove_zero_rows())?;
    let e: QVec = {
        let v = fzq.apply(&yq);
        keep_rows.iter().map(|i| v[*i].clone()).collect()
    };
    chk!(r.outdim() == keep_rows.len(), "remove_zero_rows kept {} rows, expected {}", r.outdim(), keep_rows.len());
    chk!(vec_eq(r.apply(&y).as_slice().unwrap(), &e), "remove_zero_rows changed the remaining components");
    let keep_cols: Vec<usize> = (0..m).filter(|j| fz.mat.rows.iter().any(|r| r[*j] != 0.0)).collect();
    ctx.class_if(keep_cols.is_empty(), "all_zero_matrix");
    ctx.class_if(keep_cols.len() < m, "zero_columns");
    let r = guard(|| fzl.remove_zero_columns());
    match r {
        Err(pm) => {
            return Err(Failure::with(
                format!("remove_zero_columns panicked on a {p}x{m} matrix with {} non-zero columns: {pm}", keep_cols.len()),
                json!({"kept_columns": keep_cols}),
            ))
        }
        Ok(r) => {
            chk!(r.indim() == keep_cols.len() && r.outdim() == p, "remove_zero_columns: shape {}x{} expected {}x{}", r.outdim(), r.indim(), p, keep_cols.len());
            let ysub: Vec<f64> = keep_cols.iter().map(|j| c.y[*j]).collect();
            let got = r.apply(&arr(&ysub));
            chk!(vec_eq(got.as_slice().unwrap(), &fzq.apply(&yq)), "remove_zero_columns changed the function on the kept coordinates");
        }
    }

    // --- convert_to for every PolyRepr (boundary points planted)
    let mut pc = c.f.clone();
    for i in 0..p {
        if c.through[i] {
            let a = qv(&pc.mat.rows[i]);
            pc.bias[i] = crate::exact::qdot(&a, &yq).to_f64();
        }
    }
    let poly = pc.poly();
    let pq = pc.q();
    let mut on_boundary = 0;
    for repr in [PolyRepr::MatrixLeqBias, PolyRepr::MatrixBiasLeqZero, PolyRepr::MatrixGeqBias, PolyRepr::MatrixBiasGeqZero] {
        let r = must("convert_to", || poly.clone().convert_to(repr))?;
        let rq = crate::pwl::aff_to_q(&r);
        chk!(rq.outdim() == p && rq.indim == m, "convert_to({repr:?}) changed the shape");
        for i in 0..p {
            let lhs = crate::exact::qdot(&rq.mat[i], &yq);
            let holds = match repr {
                PolyRepr::MatrixLeqBias => lhs <= rq.bias[i],
                PolyRepr::MatrixBiasLeqZero => &lhs + &rq.bias[i] <= Q::zero(),
                PolyRepr::MatrixGeqBias => lhs >= rq.bias[i],
                PolyRepr::MatrixBiasGeqZero => &lhs + &rq.bias[i] >= Q::zero(),
            };
            let slack = &pq.bias[i] - &crate::exact::qdot(&pq.mat[i], &yq);
            if slack.is_zero() {
                on_boundary += 1;
            }
            let member = !slack.is_neg();
            chk!(holds == member, "convert_to({repr:?}) row {i}: predicate is {holds} at y but y in half-space is {member}");
        }
    }
    ctx.count("repr_boundary_rows", on_boundary);

    // --- named constructors
    let i = pick(c.idx, m);
    let j = pick(c.idx2, m);
    let eqv = |what: &str, got: Result<Array1<f64>, String>, e: QVec| -> CaseResult {
        let got = got.map_err(|pm| Failure::new(format!("{what} panicked: {pm}")))?;
        if vec_eq(got.as_slice().unwrap(), &e) {
            Ok(())
        } else {
            Err(Failure::new(format!("{what}: got {got:?}, expected {e:?} at y={:?}", c.y)))
        }
    };
    eqv("identity(m)(y)", guard(|| AffFunc::identity(m).apply(&y)), yq.clone())?;
    eqv("zeros(m)(y)", guard(|| AffFunc::zeros(m).apply(&y)), vec![Q::zero(); m])?;
    eqv("constant(m,v)(y)", guard(|| AffFunc::constant(m, c.scal).apply(&y)), vec![Q::from_f64(c.scal)])?;
    eqv("unit(m,i)(y)", guard(|| AffFunc::unit(m, i).apply(&y)), vec![yq[i].clone()])?;
    let mut e = yq.clone();
    e[i] = Q::zero();
    eqv("zero_idx(m,i)(y)", guard(|| AffFunc::zero_idx(m, i).apply(&y)), e)?;
    let mut s = Q::zero();
    for v in &yq {
        s = &s + v;
    }
    eqv("sum(m)(y)", guard(|| AffFunc::sum(m).apply(&y)), vec![s])?;
    if i != j {
        eqv(&format!("subtraction({m},{i},{j})(y)"), guard(|| AffFunc::subtraction(m, i, j).apply(&y)), vec![&yq[i] - &yq[j]])?;
    }
    let permq = AffQ::new(c.perm.q(), vec![Q::zero(); m], m);
    eqv("rotation(R)(y)", guard(|| AffFunc::rotation(c.perm.to_array()).apply(&y)), permq.apply(&yq))?;
    let sc = qv(&c.scalars);
    eqv("scaling(s)(y)", guard(|| AffFunc::scaling(&arr(&c.scalars)).apply(&y)), yq.iter().zip(&sc).map(|(a, b)| a * b).collect())?;
    let k = Q::from_f64(c.scal);
    eqv("uniform_scaling(m,c)(y)", guard(|| AffFunc::uniform_scaling(m, c.scal).apply(&y)), yq.iter().map(|a| a * &k).collect())?;
    let refp: Vec<f64> = (0..m).map(|t| if c.slice_mask[t] { f64::NAN } else { c.offset[t] }).collect();
    let e: QVec = (0..m).map(|t| if c.slice_mask[t] { yq[t].clone() } else { Q::from_f64(c.offset[t]) }).collect();
    eqv("slice(ref)(y)", guard(|| AffFunc::slice(&arr(&refp)).apply(&y)), e)?;
    let off = qv(&c.offset);
    eqv(
        "translation(m, offset)(y) [documented: translates vectors by the given offset]",
        guard(|| AffFunc::translation(m, arr(&c.offset)).apply(&y)),
        yq.iter().zip(&off).map(|(a, b)| a + b).collect(),
    )?;
    // apply_transpose is the inverse for orthogonal maps
    let orth = AffFunc::from_mats(c.perm.to_array(), arr(&c.offset));
    let img = orth.apply(&y);
    let back = must("apply_transpose", || orth.apply_transpose(&img))?;
    chk!(vec_eq(back.as_slice().unwrap(), &yq), "apply_transpose(apply(y)) != y for an orthogonal map");

    let nonsym = p != m || (0..p).any(|a| (0..m).any(|b| c.f.mat.rows[a][b] != c.f.mat.rows[b.min(p - 1)][a.min(m - 1)]));
    ctx.class_if(p != m, "non_square");
    ctx.class(&format!("dim{}", m));
    ctx.set_nontrivial(nonsym && m >= 2 && n >= 1);
    Ok(())
}

pub struct C16;

impl Property for C16 {
    type Case = Case;
    fn id(&self) -> &'static str {
        "C16"
    }
    fn rule(&self) -> String {
        "dims n,m,p in 1..8 (thorough 1..10), small dyadic matrices/biases/inputs (library arithmetic exact, compared bit-for-bit with rational evaluation), matrices in row- or column-major layout, planted zero rows/columns, hyperplanes through the test point; every operator in all ownership/view variants, compose/stack/row/row_iter/remove_*/from_row_iter/view/conversions/all four PolyRepr, every named constructor against its doc sentence. Non-trivial = matrix non-square or non-symmetric and dim >= 2; distinct = distinct serialised cases".into()
    }
    fn assumptions(&self) -> Vec<String> {
        vec![
            "non-normal floats are never generated (from_mats rejects them in debug builds)".into(),
            "divisors for / and % are non-zero powers of two; remove_rows gets ascending valid indices".into(),
            "subtraction(dim,l,r) is checked for l != r only (all callers use distinct indices)".into(),
            "translation(dim, offset) is called with offset.len() == dim".into(),
        ]
    }
    fn cases(&self, tier: Tier) -> usize {
        tier.pick(80000, 2_500_000)
    }
    fn strategy(&self, tier: Tier) -> BoxedStrategy<Case> {
        strategy(tier.pick(8, 10))
    }
    fn run(&self, case: &Case, ctx: &mut Ctx) -> CaseResult {
        run_case(case, ctx)
    }
}
