//! C12 — the arena tree stays structurally consistent under any operation sequence
//! (stateful, model-based).

use crate::runner::*;
use crate::treemodel::*;
use affinitree::tree::graph::{NodeError, Tree};
use proptest::prelude::*;
use serde::{Deserialize, Serialize};

#[derive(Clone, Debug, Serialize, Deserialize)]
pub enum Sel {
    Live(u16),
    Dead(u16),
    Far(u8),
    Root,
}

#[derive(Clone, Debug, Serialize, Deserialize)]
pub enum Op {
    Add { p: Sel, label: u8, v: i8 },
    TryRemove { p: Sel, label: u8 },
    Remove { p: Sel, label: u8 },
    RemoveDesc { n: Sel },
    Merge { p: Sel, label: u8 },
    Update { n: Sel, v: i8 },
}

#[derive(Clone, Debug, Serialize, Deserialize)]
pub struct Case {
    pub k: u8,
    pub ops: Vec<Op>,
    /// rare "large arena" cases: this many nodes are added at pseudo-random free slots before the history runs
    /// (and a quarter as many again after its first half, so that freed indices are re-used deep in the tree)
    #[serde(default)]
    pub bulk: u16,
}

pub fn sel_strategy() -> impl Strategy<Value = Sel> {
    prop_oneof![
        14 => any::<u16>().prop_map(Sel::Live),
        3 => any::<u16>().prop_map(Sel::Dead),
        1 => (0u8..4).prop_map(Sel::Far),
        2 => Just(Sel::Root),
    ]
}

pub fn op_strategy() -> impl Strategy<Value = Op> {
    prop_oneof![
        10 => (sel_strategy(), any::<u8>(), any::<i8>()).prop_map(|(p, label, v)| Op::Add { p, label, v }),
        2 => (sel_strategy(), any::<u8>()).prop_map(|(p, label)| Op::TryRemove { p, label }),
        1 => (sel_strategy(), any::<u8>()).prop_map(|(p, label)| Op::Remove { p, label }),
        1 => sel_strategy().prop_map(|n| Op::RemoveDesc { n }),
        2 => (sel_strategy(), any::<u8>()).prop_map(|(p, label)| Op::Merge { p, label }),
        1 => (sel_strategy(), any::<i8>()).prop_map(|(n, v)| Op::Update { n, v }),
    ]
}

pub fn resolve(m: &Model, s: &Sel) -> usize {
    let far = |n: u8| m.nodes.keys().chain(m.dead.iter()).max().copied().unwrap_or(0) + 1 + n as usize;
    match s {
        Sel::Live(x) => {
            let l = m.live();
            l[pick(*x, l.len())]
        }
        Sel::Dead(x) => {
            if m.dead.is_empty() {
                far(0)
            } else {
                m.dead[pick(*x, m.dead.len())]
            }
        }
        Sel::Far(n) => far(*n),
        Sel::Root => m.root,
    }
}

pub fn lab(label: u8, k: usize) -> usize {
    pick((label as u16) << 8, k)
}

fn err_kind(e: &NodeError) -> MErr {
    match e {
        NodeError::InvalidIndex(_) => MErr::InvalidIndex,
        NodeError::MissingChild { .. } => MErr::MissingChild,
        NodeError::ChildExists { .. } => MErr::ChildExists,
        NodeError::RootNode => MErr::RootNode,
        _ => MErr::Panic,
    }
}

fn api_checks<const K: usize>(t: &Tree<i64, K>, m: &Model) -> Result<(), String> {
    for (&i, n) in &m.nodes {
        if !t.contains(i) {
            return Err(format!("contains({i}) is false for a live node"));
        }
        match guard(|| t.parent(i).map(|e| (e.source_idx, e.label, e.target_idx))) {
            Err(p) => return Err(format!("parent({i}) panicked: {p}")),
            Ok(Ok((s, l, tg))) => {
                let exp_l = n.parent.map(|p| m.nodes[&p].children.iter().position(|c| *c == Some(i)).unwrap());
                if Some(s) != n.parent || Some(l) != exp_l || tg != i {
                    return Err(format!("parent({i}) = ({s},{l},{tg}), expected parent {:?} label {:?}", n.parent, exp_l));
                }
            }
            Ok(Err(NodeError::MissingParent { .. })) => {
                if n.parent.is_some() {
                    return Err(format!("parent({i}) reports MissingParent but the node has one"));
                }
            }
            Ok(Err(e)) => return Err(format!("parent({i}) failed: {e}")),
        }
        for l in 0..K {
            match guard(|| t.child(i, l).map(|e| e.target_idx)) {
                Err(p) => return Err(format!("child({i},{l}) panicked: {p}")),
                Ok(Ok(c)) => {
                    if n.children[l] != Some(c) {
                        return Err(format!("child({i},{l}) = {c}, expected {:?}", n.children[l]));
                    }
                }
                Ok(Err(_)) => {
                    if n.children[l].is_some() {
                        return Err(format!("child({i},{l}) failed although the child exists"));
                    }
                }
            }
        }
        // path_to_node against direct computation
        let mut exp = Vec::new();
        let mut cur = i;
        while let Some(p) = m.nodes[&cur].parent {
            let l = m.nodes[&p].children.iter().position(|c| *c == Some(cur)).unwrap();
            exp.push((p, l));
            cur = p;
        }
        exp.reverse();
        match guard(|| t.path_to_node(i)) {
            Err(p) => return Err(format!("path_to_node({i}) panicked: {p}")),
            Ok(Ok(path)) => {
                if path != exp {
                    return Err(format!("path_to_node({i}) = {path:?}, expected {exp:?}"));
                }
            }
            Ok(Err(e)) => return Err(format!("path_to_node({i}) failed: {e}")),
        }
        if t.is_leaf(i).ok() != Some(n.children.iter().all(|c| c.is_none())) {
            return Err(format!("is_leaf({i}) wrong"));
        }
        if t.num_children(i) != n.children.iter().flatten().count() {
            return Err(format!("num_children({i}) wrong"));
        }
    }
    for d in &m.dead {
        if t.contains(*d) {
            return Err(format!("contains({d}) is true for a removed node"));
        }
    }
    Ok(())
}

pub fn apply_op<const K: usize>(
    t: &mut Tree<i64, K>,
    m: &mut Model,
    op: &Op,
    ctx: &mut Ctx,
) -> Result<(), String> {
    let describe = format!("{op:?}");
    match op {
        Op::Add { p, label, v } => {
            let (pi, l) = (resolve(m, p), lab(*label, K));
            let exp = m.can_add(pi, l);
            let was_dead = m.dead.clone();
            let r = guard(|| t.add_child_node(pi, l, *v as i64));
            match (r, exp) {
                (Err(_), Err(MErr::ChildExists)) => {
                    // the doc comment announces a panic for an occupied slot
                    ctx.class("documented_panic");
                    compare(t, m).map_err(|s| format!("{describe} panicked (documented) but changed the tree: {s}"))?;
                }
                (Err(pm), _) => return Err(format!("{describe} -> add_child_node({pi},{l}) panicked: {pm}")),
                (Ok(Ok(idx)), Ok(())) => {
                    if m.nodes.contains_key(&idx) {
                        return Err(format!("{describe}: returned index {idx} belongs to a live node"));
                    }
                    if was_dead.contains(&idx) {
                        ctx.class("reused_index");
                    }
                    m.add(pi, l, idx, *v as i64);
                }
                (Ok(Ok(idx)), Err(e)) => return Err(format!("{describe}: returned Ok({idx}) but {e:?} was expected")),
                (Ok(Err(e)), Ok(())) => return Err(format!("{describe}: unexpected error {e}")),
                (Ok(Err(e)), Err(exp)) => {
                    ctx.class("err_returned");
                    if err_kind(&e) != exp {
                        return Err(format!("{describe}: error kind {e:?}, expected {exp:?}"));
                    }
                    compare(t, m).map_err(|s| format!("{describe} returned Err({e}) but changed the tree: {s}"))?;
                }
            }
        }
        Op::TryRemove { p, label } | Op::Remove { p, label } => {
            let is_try = matches!(op, Op::TryRemove { .. });
            let (pi, l) = (resolve(m, p), lab(*label, K));
            let mut m2 = m.clone();
            let exp = m2.try_remove_child(pi, l);
            if is_try {
                match (guard(|| t.try_remove_child(pi, l)), exp) {
                    (Err(pm), _) => return Err(format!("{describe} -> try_remove_child({pi},{l}) panicked: {pm}")),
                    (Ok(Ok(v)), Ok(ev)) => {
                        if v != ev {
                            return Err(format!("{describe}: returned value {v}, expected {ev}"));
                        }
                        *m = m2;
                    }
                    (Ok(Ok(_)), Err(e)) => return Err(format!("{describe}: Ok but {e:?} expected")),
                    (Ok(Err(e)), Ok(_)) => return Err(format!("{describe}: unexpected error {e}")),
                    (Ok(Err(e)), Err(exp)) => {
                        ctx.class("err_returned");
                        if err_kind(&e) != exp {
                            return Err(format!("{describe}: error kind {e:?}, expected {exp:?}"));
                        }
                        compare(t, m).map_err(|s| format!("{describe} returned Err but changed the tree: {s}"))?;
                    }
                }
            } else {
                match (guard(|| t.remove_child(pi, l)), exp) {
                    (Ok(v), Ok(ev)) => {
                        if v != ev {
                            return Err(format!("{describe}: returned value {v}, expected {ev}"));
                        }
                        *m = m2;
                    }
                    (Ok(_), Err(e)) => return Err(format!("{describe}: returned but {e:?} expected")),
                    (Err(pm), Ok(_)) => return Err(format!("{describe}: remove_child panicked on an existing child: {pm}")),
                    (Err(_), Err(_)) => {
                        ctx.class("documented_panic");
                        compare(t, m).map_err(|s| format!("{describe} panicked (documented) but changed the tree: {s}"))?;
                    }
                }
            }
        }
        Op::RemoveDesc { n } => {
            let ni = resolve(m, n);
            let mut m2 = m.clone();
            let exp = m2.remove_descendants(ni);
            match (guard(|| t.remove_all_descendants(ni)), exp) {
                (Err(pm), _) => return Err(format!("{describe} -> remove_all_descendants({ni}) panicked: {pm}")),
                (Ok(Ok(cnt)), Ok(e)) => {
                    if cnt as usize != e {
                        return Err(format!("{describe}: reported {cnt} deletions, expected {e}"));
                    }
                    *m = m2;
                }
                (Ok(Ok(_)), Err(e)) => return Err(format!("{describe}: Ok but {e:?} expected")),
                (Ok(Err(e)), Ok(_)) => return Err(format!("{describe}: unexpected error {e}")),
                (Ok(Err(_)), Err(_)) => {
                    ctx.class("err_returned");
                    compare(t, m).map_err(|s| format!("{describe} returned Err but changed the tree: {s}"))?;
                }
            }
        }
        Op::Merge { p, label } => {
            let (pi, l) = (resolve(m, p), lab(*label, K));
            let mut m2 = m.clone();
            let exp = m2.merge(pi, l);
            let r = guard(|| t.merge_child_with_parent(pi, l).map(|n| (n.value, n.parent, n.children.to_vec(), n.isleaf)));
            match (r, exp) {
                (Err(_), Err(MErr::Panic)) => {
                    ctx.class("documented_panic");
                    compare(t, m).map_err(|s| format!("{describe} panicked (assert) but changed the tree: {s}"))?;
                }
                (Err(pm), _) => return Err(format!("{describe} -> merge_child_with_parent({pi},{l}) panicked: {pm}")),
                (Ok(Ok((v, par, ch, leaf))), Ok(e)) => {
                    if v != e.value || par != e.parent || ch != e.children || leaf {
                        return Err(format!("{describe}: returned node ({v},{par:?},{ch:?},{leaf}) differs from the removed one {e:?}"));
                    }
                    ctx.class("merged");
                    *m = m2;
                }
                (Ok(Ok(_)), Err(e)) => return Err(format!("{describe}: Ok but {e:?} expected")),
                (Ok(Err(e)), Ok(_)) => return Err(format!("{describe}: unexpected error {e}")),
                (Ok(Err(e)), Err(exp)) => {
                    ctx.class("err_returned");
                    if exp != MErr::Panic && err_kind(&e) != exp {
                        return Err(format!("{describe}: error kind {e:?}, expected {exp:?}"));
                    }
                    compare(t, m).map_err(|s| format!("{describe} returned Err but changed the tree: {s}"))?;
                }
            }
        }
        Op::Update { n, v } => {
            let ni = resolve(m, n);
            let mut m2 = m.clone();
            let exp = m2.update(ni, *v as i64);
            match (guard(|| t.update_node(ni, *v as i64)), exp) {
                (Err(pm), _) => return Err(format!("{describe} -> update_node({ni}) panicked: {pm}")),
                (Ok(Ok(old)), Ok(e)) => {
                    if old != e {
                        return Err(format!("{describe}: returned {old}, expected {e}"));
                    }
                    *m = m2;
                }
                (Ok(Ok(_)), Err(e)) => return Err(format!("{describe}: Ok but {e:?} expected")),
                (Ok(Err(e)), Ok(_)) => return Err(format!("{describe}: unexpected error {e}")),
                (Ok(Err(_)), Err(_)) => {
                    ctx.class("err_returned");
                    compare(t, m).map_err(|s| format!("{describe} returned Err but changed the tree: {s}"))?;
                }
            }
        }
    }
    compare(t, m).map_err(|s| format!("after {describe}: {s}"))?;
    api_checks(t, m).map_err(|s| format!("after {describe}: {s}"))?;
    Ok(())
}

fn run_k<const K: usize>(case: &Case, ctx: &mut Ctx) -> CaseResult {
    let mut t = Tree::<i64, K>::new();
    let root = t.add_root(100);
    let mut m = Model::new(K, root, 100);
    if case.bulk > 0 {
        ctx.class("large_arena");
        crate::treemodel::bulk_grow(&mut t, &mut m, case.bulk as usize, case.bulk as u64, &|v| v);
        compare(&t, &m).map_err(|s| Failure::new(format!("K={K} after adding {} nodes: {s}", case.bulk)))?;
    }
    let half = case.ops.len() / 2;
    for (step, op) in case.ops.iter().enumerate() {
        if case.bulk > 0 && step == half {
            crate::treemodel::bulk_grow(&mut t, &mut m, case.bulk as usize / 4, case.bulk as u64 + 1, &|v| v);
            compare(&t, &m).map_err(|s| Failure::new(format!("K={K} after the second bulk insertion: {s}")))?;
        }
        apply_op(&mut t, &mut m, op, ctx).map_err(|s| Failure::new(format!("K={K} step {step}: {s}")))?;
    }
    ctx.count("ops", case.ops.len() as u64);
    ctx.count("final_nodes", m.nodes.len() as u64);
    let nt = ctx.classes.contains("reused_index") && ctx.classes.contains("err_returned");
    ctx.set_nontrivial(nt);
    Ok(())
}

pub struct C12;

impl Property for C12 {
    type Case = Case;
    fn id(&self) -> &'static str {
        "C12"
    }
    fn rule(&self) -> String {
        "histories of add_child_node/try_remove_child/remove_child/remove_all_descendants/merge_child_with_parent/update_node over K in {2,3} with live, removed (possibly reused), out-of-range and root selectors, interpreted against a reference model; after every op the raw arena, len(), reachability, leaf flags, return values and parent()/child()/path_to_node() must equal the model, and Err/documented panic must leave the arena unchanged; 1 case in 200 runs on a large arena (1100-2600 nodes grown before and in the middle of the history). Non-trivial = at least one insertion reused a freed index AND at least one call returned Err; distinct = distinct serialised histories".into()
    }
    fn assumptions(&self) -> Vec<String> {
        vec![
            "labels are < K (larger labels are outside the documented domain: array index panic)".into(),
            "a panic on an argument outside the documented domain (merge on a node without exactly one child, remove_child on a missing child) is not a violation; a changed tree afterwards is".into(),
            "add_root is called once (replacing the root is the documented exception to reachability)".into(),
        ]
    }
    fn cases(&self, tier: Tier) -> usize {
        tier.pick(100000, 1_000_000)
    }
    fn strategy(&self, tier: Tier) -> BoxedStrategy<Case> {
        let max = tier.pick(40, 200);
        (prop_oneof![Just(2u8), Just(3u8)], prop_oneof![19 => proptest::collection::vec(op_strategy(), 0..max), 1 => proptest::collection::vec(op_strategy(), max..(4 * max))])
            .prop_flat_map(|(k, ops)| (Just(k), Just(ops), prop_oneof![1990 => Just(0u16), 9 => 1100u16..2600, 1 => 8500u16..12000]))
            .prop_map(|(k, ops, bulk)| Case { k, ops, bulk })
            .boxed()
    }
    fn run(&self, case: &Case, ctx: &mut Ctx) -> CaseResult {
        ctx.class(if case.k == 2 { "k2" } else { "k3" });
        match case.k {
            2 => run_k::<2>(case, ctx),
            3 => run_k::<3>(case, ctx),
            k => Err(Failure::new(format!("unsupported k {k}"))),
        }
    }
}
