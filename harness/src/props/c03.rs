//! C03 — pruning never changes the represented (partial) function.

use crate::hist::*;
use crate::histcheck::*;
use crate::runner::*;
use proptest::prelude::*;

pub struct C03;

pub fn run_case(h: &History, ctx: &mut Ctx) -> CaseResult {
    let mut st = init(h)?;
    ctx.class_if(h.shift > 0, "data_far_from_origin");
    let mut cached = false;
    let mut judged_prunings = 0;
    let mut removed_total = 0usize;
    let mut nontrivial = false;
    for (i, op) in h.ops.iter().enumerate() {
        if !st.tracking || st.t.len() > 96 {
            break;
        }
        let before = st.t.clone();
        let was_partial = !super::c04::is_total(&st);
        // unpruned twin for compose<true>
        let twin = match op {
            HOp::Compose { prune: true, g, out } => {
                let mut s2 = HState { t: st.t.clone(), r: st.r.clone(), in_dim: st.in_dim, out_dim: st.out_dim, anchors: st.anchors.clone(), shift: st.shift, total_operands_only: st.total_operands_only, tracking: st.tracking };
                let info2 = step(&mut s2, &HOp::Compose { prune: false, g: g.clone(), out: *out }).map_err(|f| Failure::with(format!("step {i} (unpruned twin): {}", f.msg), f.detail))?;
                if info2.skipped {
                    None
                } else {
                    Some(s2)
                }
            }
            _ => None,
        };
        let info = match step(&mut st, op) {
            Ok(i) => i,
            Err(f) => return Err(Failure::with(format!("step {i}: {}", f.msg), f.detail)),
        };
        if info.skipped {
            continue;
        }
        if !st.tracking {
            break;
        }
        let after = format!("step {i} ({})", info.desc);
        if info.pruning {
            let inputs = inputs_of(h, &st);
            let out = check_function(&st, &inputs, true, &after)?;
            judged_prunings += 1;
            ctx.count("inputs", out.inputs as u64);
            ctx.count("inputs_on_boundary", out.on_boundary as u64);
            ctx.count("thin_exempt", out.thin_exempt as u64);
            ctx.count("inputs_not_judged_rounding", out.rounding_skipped as u64);
            ctx.class_if(cached, "cached_states");
            ctx.class_if(was_partial || info.partial_operand, "partial");
            let mut removed = 0;
            if matches!(op, HOp::Eliminate) {
                let (vt, sd) = vanish_check(&before, &st.t, &after)?;
                removed = before.len() - st.t.len();
                ctx.class_if(sd > 0, "forwarded");
                ctx.class_if(vt > 0, "removed_terminal");
            }
            if let Some(tw) = &twin {
                // the unpruned result must denote the same function (no exemption needed there)
                check_function(tw, &inputs, false, &format!("{after} [unpruned twin]"))?;
                removed = tw.t.len().saturating_sub(st.t.len());
                ctx.class("compose_pruned_vs_unpruned");
            }
            removed_total += removed;
            if removed >= 1 && st.t.num_terminals() >= 2 {
                nontrivial = true;
            }
            cached = true;
        }
    }
    ctx.count("prunings_judged", judged_prunings);
    ctx.count("nodes_removed", removed_total as u64);
    ctx.set_nontrivial(nontrivial);
    Ok(())
}

pub const W_PRUNE: OpWeights = OpWeights { apply: 2, compose_unpruned: 5, compose_pruned: 5, eliminate: 6, reduce: 1, arith_tree: 4, arith_aff: 0 };

impl Property for C03 {
    type Case = History;
    fn id(&self) -> &'static str {
        "C03"
    }
    fn rule(&self) -> String {
        "binary trees (generated total/partial trees with predicates that contradict or duplicate an ancestor, from_poly preconditions, schema trees) put through short histories (so that feasibility caches are fresh or come from earlier compose/eliminate/apply_func/forwarding steps); after every pruning operation (infeasible_elimination, compose<true>, tree +- tree) the tree is compared with the unpruned reference function on ALL full-dimensional cells by exact LP and at exact boundary inputs (thin rule: inputs whose path crosses a region without a ball of radius 1e-6 are exempt and counted); compose<true> is additionally compared with compose<false> of the same operands; after infeasible_elimination every vanished terminal and every skipped decision's lost branch must have a region without such a ball, and a skipped decision must not have had a reachable missing branch. Non-trivial = some pruning removed >= 1 node and left >= 2 terminals; distinct = distinct serialised histories; 1 history in 25 has its input-space data translated by 2^20..2^30 (data far from the origin)".into()
    }
    fn assumptions(&self) -> Vec<String> {
        vec![
            "thin = no ball of radius 1e-6 (two orders above the solver's 1e-8)".into(),
            "K = 2; histories stop being judged when the reference exceeds 400 cells or 50 mantissa bits".into(),
        ]
    }
    fn cases(&self, tier: Tier) -> usize {
        tier.pick(20000, 400_000)
    }
    fn strategy(&self, tier: Tier) -> BoxedStrategy<History> {
        history(W_PRUNE, tier.pick(5, 8))
    }
    fn run(&self, case: &History, ctx: &mut Ctx) -> CaseResult {
        run_case(case, ctx)
    }
}
