//! C10 — the LP layer classifies polytopes and optimises correctly.
//! Oracle: exact rational LP (with certificates) on the f64 data read as rationals.

use super::c15::optimal_face_unbounded;
use crate::exact::{norm1, qdot, AffQ, QVec, Q};
use crate::gen::*;
use crate::lp::{self, Opt, Row};
use crate::runner::*;
use affinitree::linalg::polyhedron::PolytopeStatus;
use ndarray::Array1;
use proptest::prelude::*;
use serde::{Deserialize, Serialize};
use serde_json::json;

pub const SIG_F9: &str = "C10/unbounded_optimal_face";

#[derive(Clone, Debug, Serialize, Deserialize)]
pub enum ObjSpec {
    Zero,
    Row { of: u16, neg: bool },
    Axis { j: u16, neg: bool },
    Random(Vec<f64>),
}

#[derive(Clone, Debug, Serialize, Deserialize)]
pub enum Sys {
    Spec(PolySpec),
    /// raw floating point data (float regime)
    Raw(Aff),
}

#[derive(Clone, Debug, Serialize, Deserialize)]
pub struct Case {
    pub sys: Sys,
    pub objs: Vec<ObjSpec>,
}

macro_rules! chk {
    ($cond:expr, $($arg:tt)*) => {
        if !($cond) {
            return Err(Failure::new(format!($($arg)*)));
        }
    };
}

fn rows_of(a: &AffQ) -> Vec<Row> {
    (0..a.outdim()).map(|i| Row::le(a.mat[i].clone(), a.bias[i].clone())).collect()
}

fn delta() -> Q {
    Q::from_f64(1e-6)
}

/// rows relaxed by a margin: if still infeasible the system is "infeasible by a margin"
fn relaxed(rows: &[Row]) -> Vec<Row> {
    lp::relaxed(rows, &delta())
}

/// returned witness must be in the set up to the stated slack
fn witness_ok(rows: &[Row], x: &[f64]) -> Result<(), String> {
    if x.iter().any(|v| !v.is_finite()) {
        return Err(format!("witness {x:?} is not finite"));
    }
    let xq = qv(x);
    let xinf = xq.iter().map(|v| v.abs()).max().unwrap_or(Q::zero());
    for (i, r) in rows.iter().enumerate() {
        let tol = &delta() * &(&Q::one() + &(&norm1(&r.a) * &(&Q::one() + &xinf)));
        if r.slack(&xq) < -&tol {
            return Err(format!("witness {x:?} violates row {i} ({:?} <= {}) by {}", r.a, r.b, (-r.slack(&xq)).to_f64()));
        }
    }
    Ok(())
}

fn status_name(s: &PolytopeStatus) -> &'static str {
    match s {
        PolytopeStatus::Infeasible => "Infeasible",
        PolytopeStatus::Unbounded => "Unbounded",
        PolytopeStatus::Optimal(_) => "Optimal",
        PolytopeStatus::Error(_) => "Error",
    }
}

/// judge one solve_linprog answer against the exact oracle
fn judge_lp(what: &str, rows: &[Row], n: usize, c: &[Q], lib: &PolytopeStatus, ctx: &mut Ctx) -> CaseResult {
    let exact = lp::minimize(rows, n, c);
    let ball = lp::has_ball_boxed(rows, n, &delta());
    match lib {
        PolytopeStatus::Error(m) => Err(Failure::new(format!("{what}: the LP layer returned Error({m})"))),
        PolytopeStatus::Infeasible => {
            if ball {
                return Err(Failure::new(format!("{what}: reported Infeasible but the set contains a ball of radius 1e-6")));
            }
            if !matches!(exact, Opt::Empty) {
                ctx.count("thin_reported_infeasible", 1);
            }
            Ok(())
        }
        PolytopeStatus::Optimal(x) => {
            let xs = x.to_vec();
            witness_ok(rows, &xs).map_err(|e| Failure::new(format!("{what}: Optimal point is not in the polytope: {e}")))?;
            match exact {
                Opt::Val(v, _) => {
                    let got = qdot(c, &qv(&xs));
                    let tol = &delta() * &(&Q::one() + &v.abs());
                    let cn = norm1(c);
                    let xinf = qv(&xs).iter().map(|v| v.abs()).max().unwrap_or(Q::zero());
                    // feasibility slack of the witness translates into objective slack of the same order
                    let tol2 = &tol + &(&delta() * &(&cn * &(&Q::one() + &xinf)));
                    if got > &v + &tol2 {
                        return Err(Failure::new(format!("{what}: Optimal point has objective {} but the true minimum is {}", got.to_f64(), v.to_f64())));
                    }
                    Ok(())
                }
                Opt::Unbounded => Err(Failure::new(format!("{what}: reported Optimal although the objective is unbounded below on the (non-empty) set"))),
                Opt::Empty => {
                    // witness passed the tolerance test on an exactly empty set: thin case
                    ctx.count("thin_optimal_on_empty", 1);
                    Ok(())
                }
            }
        }
        PolytopeStatus::Unbounded => match exact {
            Opt::Unbounded => Ok(()),
            Opt::Empty => {
                if lp::feasible_closed(&relaxed(rows), n).is_none() {
                    Err(Failure::new(format!("{what}: reported Unbounded but the set is empty by a margin")))
                } else {
                    ctx.count("thin_unbounded_on_empty", 1);
                    Ok(())
                }
            }
            Opt::Val(v, _) => {
                let neg: QVec = c.iter().map(|x| -x).collect();
                let face_unb = optimal_face_unbounded(rows, n, &neg);
                if face_unb && ctx.known(SIG_F9) {
                    return Ok(());
                }
                Err(Failure::with(
                    format!(
                        "{what}: reported Unbounded but the minimum exists and equals {} (optimal face unbounded: {face_unb})",
                        v.to_f64()
                    ),
                    json!({"signature_if_unbounded_face": SIG_F9, "optimal_face_unbounded": face_unb}),
                ))
            }
        },
    }
}

pub fn run_case(case: &Case, ctx: &mut Ctx) -> CaseResult {
    let (pa, tags, anchors) = match &case.sys {
        Sys::Spec(s) => {
            let (a, t) = s.resolve();
            (a, t, s.anchors.clone())
        }
        Sys::Raw(a) => (a.clone(), vec!["float_regime"], vec![]),
    };
    let _ = anchors;
    for t in &tags {
        ctx.class(t);
    }
    let n = pa.indim();
    let p = pa.poly();
    let pq = pa.q();
    let rows = rows_of(&pq);
    let m = rows.len();

    let closed_nonempty = lp::feasible_closed(&rows, n).is_some();
    let ball = lp::has_ball_boxed(&rows, n, &delta());
    let fd = closed_nonempty && lp::full_dim(&rows, n).is_some();
    ctx.class(if !closed_nonempty {
        "empty"
    } else if !fd {
        "lower_dim"
    } else {
        "full_dim"
    });
    let margin_empty = lp::feasible_closed(&relaxed(&rows), n).is_none();

    // ---- status / is_feasible
    let st = must("status", || p.status())?;
    judge_lp("status()", &rows, n, &vec![Q::zero(); n], &st, ctx)?;
    if ball {
        chk!(!matches!(st, PolytopeStatus::Infeasible), "status(): set contains a ball of radius 1e-6 but Infeasible was reported");
    }
    if margin_empty {
        chk!(matches!(st, PolytopeStatus::Infeasible), "status(): set is empty by a margin but {} was reported", status_name(&st));
    }
    let isf = must("is_feasible", || p.is_feasible())?;
    chk!(isf == !matches!(st, PolytopeStatus::Infeasible), "is_feasible() = {isf} disagrees with status() = {}", status_name(&st));

    // ---- solve_linprog for several objectives
    for o in &case.objs {
        let c: Vec<f64> = match o {
            ObjSpec::Zero => vec![0.0; n],
            ObjSpec::Row { of, neg } => {
                if m == 0 {
                    vec![0.0; n]
                } else {
                    let r = &pa.mat.rows[pick(*of, m)];
                    r.iter().map(|x| if *neg { -x } else { *x }).collect()
                }
            }
            ObjSpec::Axis { j, neg } => {
                let mut v = vec![0.0; n];
                v[pick(*j, n)] = if *neg { -1.0 } else { 1.0 };
                v
            }
            ObjSpec::Random(v) => {
                let mut v = v.clone();
                v.resize(n, 0.0);
                v
            }
        };
        let cq = qv(&c);
        let lib = must("solve_linprog", || p.solve_linprog(Array1::from_vec(c.clone()), false))?;
        let what = format!("solve_linprog({c:?})");
        judge_lp(&what, &rows, n, &cq, &lib, ctx)?;
        // completeness: what the exact answer demands of the library
        match lp::minimize(&rows, n, &cq) {
            Opt::Empty => {
                if margin_empty {
                    chk!(matches!(lib, PolytopeStatus::Infeasible), "{what}: infeasible by a margin but {} reported", status_name(&lib));
                }
            }
            Opt::Unbounded => {
                ctx.class("obj_unbounded");
                if ball {
                    chk!(matches!(lib, PolytopeStatus::Unbounded), "{what}: non-empty (interior) and unbounded below, but {} reported", status_name(&lib));
                }
            }
            Opt::Val(_, _) => {
                ctx.class("obj_finite");
                if ball {
                    chk!(!matches!(lib, PolytopeStatus::Infeasible), "{what}: minimum exists on a set with interior but Infeasible reported");
                }
            }
        }
    }

    // ---- Chebyshev centre
    if m >= 1 {
        let (cp, cost) = must("chebyshev_center", || p.chebyshev_center())?;
        chk!(cp.n_constraints() == m + 1 && cp.indim() == n + 1, "chebyshev_center: shape {}x{} expected {}x{}", cp.n_constraints(), cp.indim(), m + 1, n + 1);
        chk!(cost.len() == n + 1 && cost.iter().take(n).all(|x| *x == 0.0) && cost[n] == -1.0, "chebyshev_center: cost vector {cost:?} is not (0,...,0,-1)");
        let mut rows_lo: Vec<Row> = Vec::new(); // norms rounded up   -> smaller radius
        let mut rows_hi: Vec<Row> = Vec::new(); // norms rounded down -> larger radius
        for i in 0..m {
            for j in 0..n {
                chk!(cp.mat[[i, j]].to_bits() == p.mat[[i, j]].to_bits(), "chebyshev_center: row {i} col {j} differs from the polytope");
            }
            chk!(cp.bias[i].to_bits() == p.bias[i].to_bits(), "chebyshev_center: bias {i} differs");
            let n2 = qdot(&rows[i].a, &rows[i].a);
            let nf = n2.to_f64().sqrt();
            let got = cp.mat[[i, n]];
            chk!((got - nf).abs() <= 4.0 * f64::EPSILON * nf.max(f64::MIN_POSITIVE), "chebyshev_center: row {i} radius coefficient {got} is not the Euclidean norm {nf}");
            let (lo, hi) = if n2.is_zero() {
                (Q::zero(), Q::zero())
            } else {
                (Q::from_f64(nf * (1.0 - 1e-12)), Q::from_f64(nf * (1.0 + 1e-12)))
            };
            assert!(&lo * &lo <= n2 && n2 <= &hi * &hi, "{}: norm bracket failed", lp::ORACLE_ERR);
            let mut a_lo = rows[i].a.clone();
            a_lo.push(hi);
            rows_lo.push(Row::le(a_lo, rows[i].b.clone()));
            let mut a_hi = rows[i].a.clone();
            a_hi.push(lo);
            rows_hi.push(Row::le(a_hi, rows[i].b.clone()));
        }
        for j in 0..n {
            chk!(cp.mat[[m, j]] == 0.0, "chebyshev_center: last row must only constrain the radius");
        }
        chk!(cp.mat[[m, n]] == -1.0 && cp.bias[m] == 0.0, "chebyshev_center: last row must be -r <= 0");
        let mut last = vec![Q::zero(); n + 1];
        last[n] = Q::int(-1);
        rows_lo.push(Row::le(last.clone(), Q::zero()));
        rows_hi.push(Row::le(last.clone(), Q::zero()));
        let mut cq = vec![Q::zero(); n + 1];
        cq[n] = Q::int(-1);
        let lib = must("solve_linprog(chebyshev)", || cp.solve_linprog(cost.clone(), false))?;
        let e_lo = lp::minimize(&rows_lo, n + 1, &cq);
        let e_hi = lp::minimize(&rows_hi, n + 1, &cq);
        let cball = lp::has_ball_boxed(&rows_lo, n + 1, &delta());
        match (&lib, &e_lo, &e_hi) {
            (PolytopeStatus::Error(msg), _, _) => return Err(Failure::new(format!("chebyshev LP returned Error({msg})"))),
            (PolytopeStatus::Optimal(sol), Opt::Val(vlo, _), Opt::Val(vhi, _)) => {
                ctx.class("cheb_optimal");
                let s = sol.to_vec();
                witness_ok(&rows_hi, &s).map_err(|e| Failure::new(format!("chebyshev solution is not an inscribed ball: {e}")))?;
                let r = Q::from_f64(s[n]);
                let (rlo, rhi) = (-vlo.clone(), -vhi.clone());
                let tol = &delta() * &(&Q::one() + &rhi.abs());
                if r < &rlo - &tol || r > &rhi + &tol {
                    return Err(Failure::new(format!(
                        "chebyshev radius {} is not the radius of a largest inscribed ball (exact radius in [{}, {}])",
                        s[n],
                        rlo.to_f64(),
                        rhi.to_f64()
                    )));
                }
            }
            (PolytopeStatus::Optimal(_), Opt::Unbounded, _) | (PolytopeStatus::Optimal(_), _, Opt::Unbounded) => {
                return Err(Failure::new("chebyshev LP reported Optimal although arbitrarily large balls fit"));
            }
            (PolytopeStatus::Optimal(sol), _, _) => {
                // exact empty: only acceptable within tolerance
                witness_ok(&rows_hi, &sol.to_vec()).map_err(|e| Failure::new(format!("chebyshev solution on an empty polytope: {e}")))?;
                ctx.count("thin_optimal_on_empty", 1);
            }
            (PolytopeStatus::Unbounded, Opt::Unbounded, _) => {
                ctx.class("cheb_unbounded");
            }
            (PolytopeStatus::Unbounded, Opt::Val(v, _), _) => {
                let neg: QVec = cq.iter().map(|x| -x).collect();
                let face_unb = optimal_face_unbounded(&rows_lo, n + 1, &neg);
                if !(face_unb && ctx.known(SIG_F9)) {
                    return Err(Failure::with(
                        format!("chebyshev LP reported Unbounded but the largest inscribed ball has finite radius {} (optimal face unbounded: {face_unb})", (-v.clone()).to_f64()),
                        json!({"signature_if_unbounded_face": SIG_F9, "optimal_face_unbounded": face_unb}),
                    ));
                }
            }
            (PolytopeStatus::Unbounded, Opt::Empty, _) => {
                if margin_empty {
                    return Err(Failure::new("chebyshev LP reported Unbounded for a polytope that is empty by a margin"));
                }
            }
            (PolytopeStatus::Infeasible, _, _) => {
                if cball {
                    return Err(Failure::new("chebyshev LP reported Infeasible although the polytope contains a ball"));
                }
            }
        }
        if margin_empty {
            chk!(matches!(lib, PolytopeStatus::Infeasible), "chebyshev LP of a polytope that is empty by a margin reported {}", status_name(&lib));
        }
    }

    let nonparallel = (0..m).any(|i| (0..i).any(|j| !parallel(&rows[i].a, &rows[j].a)));
    ctx.set_nontrivial(n >= 2 && nonparallel);
    Ok(())
}

fn parallel(a: &[Q], b: &[Q]) -> bool {
    // cross-multiplication test
    for i in 0..a.len() {
        for j in 0..i {
            if &a[i] * &b[j] != &a[j] * &b[i] {
                return false;
            }
        }
    }
    true
}

fn obj_spec(n: usize) -> impl Strategy<Value = ObjSpec> {
    prop_oneof![
        1 => Just(ObjSpec::Zero),
        3 => (any::<u16>(), any::<bool>()).prop_map(|(of, neg)| ObjSpec::Row { of, neg }),
        2 => (any::<u16>(), any::<bool>()).prop_map(|(j, neg)| ObjSpec::Axis { j, neg }),
        3 => vec_of(n, nice_sparse()).prop_map(ObjSpec::Random),
    ]
}

pub struct C10;

impl Property for C10 {
    type Case = Case;
    fn id(&self) -> &'static str {
        "C10"
    }
    fn rule(&self) -> String {
        "constraint systems of dims 1..4 (thorough 1..6) with 0..10 (16) rows from the row classes (random, duplicate, +/- multiples, parallel, zero rows, equality pairs, axis bounds, rows through / around anchor points) plus ~10% raw floating-point systems; objectives zero, +/- a row, +/- an axis, random. status/is_feasible/solve_linprog/chebyshev_center are refereed by an exact rational simplex whose every answer carries a checked certificate (Farkas / ray / primal-dual pair). Non-trivial = dim >= 2 and two non-parallel rows; distinct = distinct serialised cases".into()
    }
    fn assumptions(&self) -> Vec<String> {
        vec![
            "thin = no ball of radius 1e-6 (1-norm test, sufficient for a Euclidean ball); empty-by-margin = still infeasible after relaxing every bias by 1e-6(1+|b|+|a|_1)".into(),
            "a returned witness may violate a row by at most 1e-6(1+|a|_1(1+|x|_inf)) (solver EPS is 1e-8)".into(),
            "known finding C10/unbounded_optimal_face: a wrong Unbounded is excluded only if the exact LP certifies a finite optimum AND a non-zero recession direction d with A d <= 0, c.d = 0".into(),
            "default minilp backend; the highs feature is not built".into(),
        ]
    }
    fn cases(&self, tier: Tier) -> usize {
        tier.pick(12000, 150_000)
    }
    fn strategy(&self, tier: Tier) -> BoxedStrategy<Case> {
        let (maxdim, maxrows) = tier.pick((4usize, 10usize), (6, 16));
        sized(maxdim, maxdim + 3)
            .prop_flat_map(move |n| {
                let sys = prop_oneof![
                    8 => poly_spec(n, 0, maxrows).prop_map(Sys::Spec),
                    1 => poly_spec(n, maxrows, 2 * maxrows + 4).prop_map(Sys::Spec),
                    1 => (1..=maxrows).prop_flat_map(move |m| aff_of(m, n, (-10.0f64..10.0).boxed())).prop_map(Sys::Raw),
                ];
                (sys, proptest::collection::vec(obj_spec(n), 1..4))
            })
            .prop_map(|(sys, objs)| Case { sys, objs })
            .boxed()
    }
    fn run(&self, case: &Case, ctx: &mut Ctx) -> CaseResult {
        run_case(case, ctx)
    }
}
