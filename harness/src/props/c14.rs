//! C14 — polytope constructors and transformations are set-exact.

use crate::exact::{qdot, AffQ, QVec, Q};
use crate::gen::*;
use crate::runner::*;
use affinitree::linalg::affine::Polytope;
use ndarray::Array2;
use proptest::prelude::*;
use serde::{Deserialize, Serialize};

#[derive(Clone, Debug, Serialize, Deserialize)]
pub struct Case {
    pub p: PolySpec,
    pub q: PolySpec,
    pub extra: Vec<PolySpec>,
    pub points: Vec<PointSpec>,
    pub d: Vec<f64>,
    pub pre: Aff,           // dim x k
    pub z0: Vec<f64>,       // k-dim point whose image is planted as an anchor of p
    pub zs: Vec<Vec<f64>>,  // k-dim test points
    pub uni: (Mat, Mat),
    pub post_bias: Vec<f64>,
    pub perm: Mat,
    pub radius: f64,
    pub intervals: Vec<(Option<f64>, Option<f64>)>,
    pub axis: u16,
    pub normals: Mat,
    pub npoints: Mat,
}

fn interval() -> impl Strategy<Value = (Option<f64>, Option<f64>)> {
    (prop::option::weighted(0.75, nice_with(32, 2)), prop::option::weighted(0.75, (0i32..=64, 0u32..=2)))
        .prop_map(|(lo, w)| match (lo, w) {
            (Some(l), Some((k, s))) => (Some(l), Some(l + k as f64 / (1u32 << s) as f64)),
            (Some(l), None) => (Some(l), None),
            (None, Some((k, s))) => (None, Some(k as f64 / (1u32 << s) as f64 - 4.0)),
            (None, None) => (None, None),
        })
}

fn strategy(maxdim: usize) -> BoxedStrategy<Case> {
    (sized(maxdim, maxdim + 2), sized(maxdim, maxdim + 2))
        .prop_flat_map(|(n, k)| {
            (
                (poly_spec(n, 1, 6), poly_spec(n, 1, 4), proptest::collection::vec(poly_spec(n, 1, 3), 0..3)),
                proptest::collection::vec(point_spec(n), 4..10),
                lattice(n),
                (aff(n, k), lattice(k), proptest::collection::vec(lattice(k), 2..5)),
                (unimodular(n), lattice(n), signed_perm(n)),
                ((0i32..=40).prop_map(|k| k as f64 / 4.0), proptest::collection::vec(interval(), n), any::<u16>()),
                (1usize..=4).prop_flat_map(move |r| (mat_of(r, n, nice_sparse()), mat_of(r, n, nice_with(16, 2).boxed()))),
            )
        })
        .prop_map(|((p, q, extra), points, d, (pre, z0, zs), (uni, post_bias, perm), (radius, intervals, axis), (normals, npoints))| Case {
            p,
            q,
            extra,
            points,
            d,
            pre,
            z0,
            zs,
            uni,
            post_bias,
            perm,
            radius,
            intervals,
            axis,
            normals,
            npoints,
        })
        .boxed()
}

macro_rules! chk {
    ($cond:expr, $($arg:tt)*) => {
        if !($cond) {
            return Err(Failure::new(format!($($arg)*)));
        }
    };
}

/// exact minimal slack of x in the polytope (rows of `a`): None for a polytope without rows
fn min_slack(a: &AffQ, x: &[Q]) -> Option<Q> {
    let mut best: Option<Q> = None;
    for i in 0..a.outdim() {
        let s = &a.bias[i] - &qdot(&a.mat[i], x);
        best = Some(match best {
            None => s,
            Some(b) => Q::min(&b, &s),
        });
    }
    best
}

#[derive(PartialEq, Debug, Clone, Copy)]
enum Member {
    In,
    Boundary,
    Out,
    DeadZone,
}

fn classify(s: &Option<Q>) -> Member {
    match s {
        None => Member::In,
        Some(s) => {
            if s.is_pos() {
                Member::In
            } else if s.is_zero() {
                Member::Boundary
            } else if *s < Q::from_f64(-1e-6) {
                Member::Out
            } else {
                Member::DeadZone
            }
        }
    }
}

struct Tally {
    inside: u64,
    boundary: u64,
    outside: u64,
    dead: u64,
}

fn judge(what: &str, lib: Result<bool, String>, m: Member, pt: &[Q], t: &mut Tally) -> CaseResult {
    let lib = lib.map_err(|pm| Failure::new(format!("{what}: contains panicked: {pm}")))?;
    match m {
        Member::In => t.inside += 1,
        Member::Boundary => t.boundary += 1,
        Member::Out => t.outside += 1,
        Member::DeadZone => {
            t.dead += 1;
            return Ok(());
        }
    }
    let exp = m != Member::Out;
    if lib != exp {
        return Err(Failure::new(format!("{what}: contains({pt:?}) = {lib}, but exact membership of the defining pre-image is {m:?}")));
    }
    Ok(())
}

fn matq(m: &Mat) -> AffQ {
    AffQ::new(m.q(), vec![Q::zero(); m.nrows()], m.cols)
}

fn high_dim_membership(c: &Case, ctx: &mut Ctx) -> CaseResult {
    let d = 200 + (c.axis as usize / 48) % 1001;
    let r = if c.radius >= 0.25 { c.radius } else { 1.0 };
    let eps = 2f64.powi(-(13 + (c.axis as i32 / 7) % 6));
    let j = pick(c.axis.wrapping_mul(40503), d);
    let shift = 0.5;
    ctx.class("high_dimensional_membership");
    let cube = must("hypercube", || Polytope::hypercube(d, r))?;
    let tvec = ndarray::Array1::from_elem(d, shift);
    let moved = must("translate", || cube.translate(&tvec))?;
    let rect = must("hyperrectangle", || Polytope::hyperrectangle(&vec![(-r, r); d]))?;
    let axb = must("axis_bounds", || Polytope::axis_bounds(d, j, -r, r))?;
    let both = must("intersection_n", || Polytope::intersection_n(d, &[cube.clone(), rect.clone()]))?;
    for (what, delta, expect) in [("outside by eps", eps, false), ("inside by eps", -eps, true), ("on the face", 0.0, true)] {
        let mut x = ndarray::Array1::<f64>::zeros(d);
        x[j] = r + delta;
        let mut xs = x.clone();
        xs += shift;
        for (name, poly, pt) in [("hypercube", &cube, &x), ("hypercube.translate", &moved, &xs), ("hyperrectangle", &rect, &x), ("axis_bounds", &axb, &x), ("intersection_n", &both, &x)] {
            let got = must("contains", || poly.contains(pt))?;
            if got != expect {
                return Err(Failure::new(format!(
                    "{name} in dimension {d} (half-width {r}): contains() = {got} for the point with component {j} = face {:+e} ({what}); the definition says {expect}",
                    delta
                )));
            }
        }
    }
    Ok(())
}

/// membership verdict with an explicit rounding allowance `e_i` per row: In when every slack exceeds e_i, Out when some
/// slack is below -(1e-6 + e_i), unjudged otherwise
fn classify_float(a: &AffQ, x: &[Q], scale: f64) -> Member {
    let mut all_in = true;
    let mut out = false;
    for i in 0..a.outdim() {
        let s = (&a.bias[i] - &qdot(&a.mat[i], x)).to_f64();
        let l1: f64 = a.mat[i].iter().map(|v| v.to_f64().abs()).sum();
        let e = 1e-11 * (l1 * scale + a.bias[i].to_f64().abs());
        if !(s > e) {
            all_in = false;
        }
        if s < -(1e-6 + e) {
            out = true;
        }
    }
    if out {
        Member::Out
    } else if all_in {
        Member::In
    } else {
        Member::DeadZone
    }
}

fn float_maps(c: &Case, ctx: &mut Ctx, p: &Polytope, pq: &AffQ, pts: &[Vec<f64>], t: &mut Tally) -> CaseResult {
    let n = c.p.dim;
    const TRIPLES: [(i64, i64, i64); 4] = [(3, 4, 5), (5, 12, 13), (8, 15, 17), (7, 24, 25)];
    // deterministic choices from fields the case already has (old replay files stay valid)
    let mut h = c.axis as u64 ^ 0x5851_F42D_4C95_7F2D;
    for v in c.post_bias.iter().chain(c.d.iter()) {
        h = (h ^ v.to_bits()).wrapping_mul(0x0000_0100_0000_01B3).rotate_left(19);
    }
    let mut next = |m: u64| {
        h = h.wrapping_mul(6364136223846793005).wrapping_add(1442695040888963407);
        (h >> 33) % m
    };
    // R = G_k ... G_1 (exact rationals)
    let mut r: Vec<QVec> = (0..n).map(|i| (0..n).map(|j| if i == j { Q::one() } else { Q::zero() }).collect()).collect();
    let steps = 1 + next(3) as usize;
    for _ in 0..steps {
        let i = next(n as u64) as usize;
        let mut j = next(n as u64 - 1) as usize;
        if j >= i {
            j += 1;
        }
        let (a, b, cc) = TRIPLES[next(4) as usize];
        let (co, si) = (Q::frac(a, cc), Q::frac(if next(2) == 0 { b } else { -b }, cc));
        // rows i and j of R are replaced by co*Ri - si*Rj and si*Ri + co*Rj
        let (ri, rj) = (r[i].clone(), r[j].clone());
        for k in 0..n {
            r[i][k] = &(&co * &ri[k]) - &(&si * &rj[k]);
            r[j][k] = &(&si * &ri[k]) + &(&co * &rj[k]);
        }
    }
    let rq = AffQ::new(r.clone(), vec![Q::zero(); n], n);
    let mut rt = vec![vec![Q::zero(); n]; n];
    for i in 0..n {
        for j in 0..n {
            rt[j][i] = r[i][j].clone();
        }
    }
    let rtq = AffQ::new(rt.clone(), vec![Q::zero(); n], n);
    let rf = Mat { rows: r.iter().map(|row| row.iter().map(|v| v.to_f64()).collect()).collect(), cols: n };
    ctx.class("float_rotation");
    let rot = must("rotate (float rotation)", || p.rotate(&rf.to_array()))?;
    let maxabs = |v: &[Q]| v.iter().map(|q| q.to_f64().abs()).fold(0.0, f64::max);
    for x in pts {
        let xq = qv(x);
        // the rounded image of x, judged through its own exact pre-image
        let imgf: Vec<f64> = rq.apply(&xq).iter().map(|v| v.to_f64()).collect();
        for y in [imgf, x.clone()] {
            let yq = qv(&y);
            let pre = rtq.apply(&yq);
            let m = classify_float(pq, &pre, (n * n) as f64 * (1.0 + maxabs(&yq)));
            judge("P.rotate(R) with a non-representable rotation R", guard(|| rot.contains(&arr(&y))), m, &yq, t)?;
        }
    }
    // apply_post with inverse = D^-1 R^T (D diagonal, entries 3, 5, 7, 1/2, -3): the map is y = R D x + c
    const DIAG: [(i64, i64); 5] = [(3, 1), (5, 1), (7, 1), (1, 2), (-3, 1)];
    let d: Vec<Q> = (0..n).map(|_| { let (a, b) = DIAG[next(5) as usize]; Q::frac(a, b) }).collect();
    let minv: Vec<QVec> = (0..n).map(|i| (0..n).map(|j| &rt[i][j] / &d[i]).collect()).collect();
    let minvq = AffQ::new(minv.clone(), vec![Q::zero(); n], n);
    let minvf = Mat { rows: minv.iter().map(|row| row.iter().map(|v| v.to_f64()).collect()).collect(), cols: n };
    let cq = qv(&c.post_bias);
    let post = must("apply_post (float inverse)", || p.apply_post(&minvf.to_array(), &arr(&c.post_bias)))?;
    let minv_max = minv.iter().map(|row| maxabs(row)).fold(0.0, f64::max).max(1.0);
    for x in pts {
        let xq = qv(x);
        // image R D x + c, rounded
        let dx: QVec = xq.iter().zip(&d).map(|(a, b)| a * b).collect();
        let imgf: Vec<f64> = rq.apply(&dx).iter().zip(&cq).map(|(a, b)| (a + b).to_f64()).collect();
        for y in [imgf, x.clone()] {
            let yq = qv(&y);
            let ymc: QVec = yq.iter().zip(&cq).map(|(a, b)| a - b).collect();
            let pre = minvq.apply(&ymc);
            let scale = (n * n) as f64 * minv_max * (1.0 + maxabs(&yq) + maxabs(&cq));
            let m = classify_float(pq, &pre, scale);
            judge("P.apply_post(M^-1, c) with a non-representable inverse", guard(|| post.contains(&arr(&y))), m, &yq, t)?;
        }
    }
    Ok(())
}

pub fn run_case(c: &Case, ctx: &mut Ctx) -> CaseResult {
    let n = c.p.dim;
    let k = c.pre.indim();
    let mut t = Tally { inside: 0, boundary: 0, outside: 0, dead: 0 };
    // plant f(z0) as an anchor of p so that apply_pre sees boundary inputs
    let preq = c.pre.q();
    let fz0: Vec<f64> = preq.apply(&qv(&c.z0)).iter().map(|v| v.to_f64()).collect();
    let mut pspec = c.p.clone();
    pspec.anchors.push(fz0);
    let (pa, ptags) = pspec.resolve();
    let (qa, _) = c.q.resolve();
    for tg in &ptags {
        ctx.class(tg);
    }
    let p = pa.poly();
    let q = qa.poly();
    let (pq, qq) = (pa.q(), qa.q());
    let pts: Vec<Vec<f64>> = c.points.iter().map(|s| s.resolve(&pspec.anchors, n)).collect();

    // contains / distance on P itself
    for x in &pts {
        let xq = qv(x);
        let m = classify(&min_slack(&pq, &xq));
        judge("P", guard(|| p.contains(&arr(x))), m, &xq, &mut t)?;
        let dist = must("distance", || p.distance(&arr(x)))?;
        for i in 0..pq.outdim() {
            let slack = &pq.bias[i] - &qdot(&pq.mat[i], &xq);
            let got = dist[i];
            let n2: Q = qdot(&pq.mat[i], &pq.mat[i]);
            if n2.is_zero() {
                ctx.class("distance_zero_row");
                if !slack.is_neg() {
                    if !(got == f64::INFINITY) {
                        return Err(Failure::new(format!(
                            "distance(): row {i} is the all-points half-space 0 <= {} but the reported distance is {got} (documented: +inf)",
                            pq.bias[i]
                        )));
                    }
                } else {
                    chk!(got < 0.0, "distance(): row {i} is the empty half-space 0 <= {} but the reported distance {got} is not negative", pq.bias[i]);
                }
                continue;
            }
            let e = slack.to_f64() / n2.to_f64().sqrt();
            chk!(got.is_finite(), "distance(): row {i} gives {got}");
            chk!((got - e).abs() <= 1e-9 * (1.0 + e.abs()), "distance(): row {i} gives {got}, expected {e}");
            chk!(
                (slack.is_pos() && got > 0.0) || (slack.is_neg() && got < 0.0) || (slack.is_zero() && got == 0.0),
                "distance(): row {i} sign wrong: exact slack {slack}, got {got}"
            );
        }
    }

    // intersection, intersection_n
    let inter = must("intersection", || p.intersection(&q))?;
    let mut all = vec![p.clone(), q.clone()];
    let mut allq = vec![pq.clone(), qq.clone()];
    for e in &c.extra {
        let (a, _) = e.resolve();
        all.push(a.poly());
        allq.push(a.q());
    }
    let inter_n = must("intersection_n", || Polytope::intersection_n(n, &all))?;
    let inter_0 = must("intersection_n of nothing", || Polytope::intersection_n(n, &[] as &[Polytope]))?;
    for x in &pts {
        let xq = qv(x);
        let s2 = [min_slack(&pq, &xq), min_slack(&qq, &xq)].into_iter().flatten().min();
        judge("P.intersection(Q)", guard(|| inter.contains(&arr(x))), classify(&s2), &xq, &mut t)?;
        let sn = allq.iter().filter_map(|a| min_slack(a, &xq)).min();
        judge("intersection_n", guard(|| inter_n.contains(&arr(x))), classify(&sn), &xq, &mut t)?;
        judge("intersection_n([])", guard(|| inter_0.contains(&arr(x))), Member::In, &xq, &mut t)?;
    }

    // translate: x in P.translate(d)  <=>  x - d in P
    let tr = must("translate", || p.translate(&arr(&c.d)))?;
    let dq = qv(&c.d);
    for x in &pts {
        // test both x (arbitrary) and x + d (image of an interesting point)
        for base_is_image in [false, true] {
            let xq: QVec = if base_is_image { qv(x).iter().zip(&dq).map(|(a, b)| a + b).collect() } else { qv(x) };
            let pre: QVec = xq.iter().zip(&dq).map(|(a, b)| a - b).collect();
            let xf: Vec<f64> = xq.iter().map(|v| v.to_f64()).collect();
            judge("P.translate(d)", guard(|| tr.contains(&arr(&xf))), classify(&min_slack(&pq, &pre)), &xq, &mut t)?;
        }
    }

    // apply_pre: z in P.apply_pre(f)  <=>  f(z) in P
    let pre_poly = must("apply_pre", || p.apply_pre(&c.pre.lib()))?;
    chk!(pre_poly.indim() == k, "apply_pre result has input dimension {} expected {k}", pre_poly.indim());
    let mut zs = c.zs.clone();
    zs.push(c.z0.clone());
    for z in &zs {
        let zq = qv(z);
        let img = preq.apply(&zq);
        judge("P.apply_pre(f)", guard(|| pre_poly.contains(&arr(z))), classify(&min_slack(&pq, &img)), &zq, &mut t)?;
    }

    // apply_post with an exactly invertible map: M x + c in result <=> x in P
    let (mm, minv) = (&c.uni.0, &c.uni.1);
    let (mq, minvq) = (matq(mm), matq(minv));
    let cq = qv(&c.post_bias);
    let post = must("apply_post", || p.apply_post(&minv.to_array(), &arr(&c.post_bias)))?;
    let nonsym = (0..n).any(|i| (0..n).any(|j| mm.rows[i][j] != mm.rows[j][i]));
    ctx.class_if(nonsym, "post_map_nonsymmetric");
    for x in &pts {
        let xq = qv(x);
        // image of x
        let img: QVec = mq.apply(&xq).iter().zip(&cq).map(|(a, b)| a + b).collect();
        let imgf: Vec<f64> = img.iter().map(|v| v.to_f64()).collect();
        judge("P.apply_post(M^-1, c) at the image M x + c", guard(|| post.contains(&arr(&imgf))), classify(&min_slack(&pq, &xq)), &img, &mut t)?;
        // arbitrary point y of the image space: y in result <=> M^-1 (y - c) in P
        let ymc: QVec = xq.iter().zip(&cq).map(|(a, b)| a - b).collect();
        let pre = minvq.apply(&ymc);
        judge("P.apply_post(M^-1, c) at an arbitrary point", guard(|| post.contains(&arr(x))), classify(&min_slack(&pq, &pre)), &xq, &mut t)?;
    }
    // rotate with an exactly orthogonal matrix: R x in result <=> x in P
    let rq = matq(&c.perm);
    let rot = must("rotate", || p.rotate(&c.perm.to_array()))?;
    for x in &pts {
        let xq = qv(x);
        let img = rq.apply(&xq);
        let imgf: Vec<f64> = img.iter().map(|v| v.to_f64()).collect();
        judge("P.rotate(R) at the image R x", guard(|| rot.contains(&arr(&imgf))), classify(&min_slack(&pq, &xq)), &img, &mut t)?;
        // R^T y in P  <=> y in result
        let mut rt = vec![vec![Q::zero(); n]; n];
        for i in 0..n {
            for j in 0..n {
                rt[j][i] = rq.mat[i][j].clone();
            }
        }
        let pre = AffQ::new(rt, vec![Q::zero(); n], n).apply(&xq);
        judge("P.rotate(R) at an arbitrary point", guard(|| rot.contains(&arr(x))), classify(&min_slack(&pq, &pre)), &xq, &mut t)?;
    }

    // float regime (as-built delta): rotations that are NOT exactly representable - products of Givens rotations
    // with Pythagorean cosines/sines (3/5,4/5), (5/13,12/13), (8/17,15/17), (7/25,24/25), optionally followed by a
    // diagonal scaling with 1/3, 1/5, 1/7 for apply_post.  The exact rational matrix is the oracle, its f64 rounding
    // is what the library gets; a point is judged only when its exact slack clears an explicit rounding bound.
    if n >= 2 {
        float_maps(c, ctx, &p, &pq, &pts, &mut t)?;
    }

    // data-sized dimensions (1 case in 48): membership in boxes of dimension 200..1200, at points that are outside /
    // inside by 2^-13 .. 2^-18 (4e-6 at least: outside the dead zone) in one coordinate, and exactly on a face
    if c.axis % 48 == 0 {
        high_dim_membership(c, ctx)?;
    }

    // constructors by definition
    let r = Q::from_f64(c.radius);
    let cube = must("hypercube", || Polytope::hypercube(n, c.radius))?;
    let unb = must("unbounded", || Polytope::unbounded(n))?;
    let emp = must("empty", || Polytope::empty(n))?;
    let iv: Vec<(f64, f64)> = c.intervals.iter().map(|(l, u)| (l.unwrap_or(f64::NEG_INFINITY), u.unwrap_or(f64::INFINITY))).collect();
    let rect = must("hyperrectangle", || Polytope::hyperrectangle(&iv))?;
    let ax = pick(c.axis, n);
    let axb = must("axis_bounds", || Polytope::axis_bounds(n, ax, iv[ax].0, iv[ax].1))?;
    let cross = must("cross_polytope", || Polytope::cross_polytope(n))?;
    let normal = must("from_normal", || Polytope::from_normal(c.normals.to_array(), c.npoints.to_array()))?;
    let nq = c.normals.q();
    let npq = c.npoints.q();
    // extra points that hit the constructor boundaries exactly
    let mut cpts = pts.clone();
    for j in 0..n {
        let mut v = vec![0.0; n];
        v[j] = c.radius;
        cpts.push(v.clone());
        v[j] = -c.radius;
        cpts.push(v.clone());
        let mut w = vec![0.0; n];
        w[j] = 1.0;
        cpts.push(w.clone());
        if n >= 2 {
            let mut w2 = vec![0.0; n];
            w2[j] = 0.5;
            w2[(j + 1) % n] = -0.5;
            cpts.push(w2);
        }
        if let Some(l) = c.intervals[j].0 {
            let mut u = pts[0].clone();
            u[j] = l;
            cpts.push(u);
        }
        if let Some(h) = c.intervals[j].1 {
            let mut u = pts[0].clone();
            u[j] = h;
            cpts.push(u);
        }
    }
    for (ri, prow) in npq.iter().enumerate() {
        let _ = ri;
        cpts.push(prow.iter().map(|v| v.to_f64()).collect());
    }
    let slack_to_member = |s: Q| classify(&Some(s));
    for x in &cpts {
        let xq = qv(x);
        let xa = arr(x);
        // hypercube: ||x||_inf <= r
        let inf = xq.iter().map(|v| v.abs()).max().unwrap();
        judge("hypercube", guard(|| cube.contains(&xa)), slack_to_member(&r - &inf), &xq, &mut t)?;
        judge("unbounded", guard(|| unb.contains(&xa)), Member::In, &xq, &mut t)?;
        judge("empty", guard(|| emp.contains(&xa)), Member::Out, &xq, &mut t)?;
        // hyperrectangle / axis_bounds
        let mut s = Q::int(1_000_000);
        for j in 0..n {
            if let Some(l) = c.intervals[j].0 {
                s = Q::min(&s, &(&xq[j] - &Q::from_f64(l)));
            }
            if let Some(h) = c.intervals[j].1 {
                s = Q::min(&s, &(&Q::from_f64(h) - &xq[j]));
            }
        }
        judge("hyperrectangle", guard(|| rect.contains(&xa)), slack_to_member(s), &xq, &mut t)?;
        let mut s = Q::int(1_000_000);
        if let Some(l) = c.intervals[ax].0 {
            s = Q::min(&s, &(&xq[ax] - &Q::from_f64(l)));
        }
        if let Some(h) = c.intervals[ax].1 {
            s = Q::min(&s, &(&Q::from_f64(h) - &xq[ax]));
        }
        judge("axis_bounds", guard(|| axb.contains(&xa)), slack_to_member(s), &xq, &mut t)?;
        // cross polytope: ||x||_1 <= 1
        let l1 = crate::exact::norm1(&xq);
        judge("cross_polytope", guard(|| cross.contains(&xa)), slack_to_member(&Q::one() - &l1), &xq, &mut t)?;
        // from_normal: n_i . (x - p_i) >= 0
        let mut s = Q::int(1_000_000);
        for i in 0..nq.len() {
            let diff: QVec = xq.iter().zip(&npq[i]).map(|(a, b)| a - b).collect();
            s = Q::min(&s, &qdot(&nq[i], &diff));
        }
        judge("from_normal", guard(|| normal.contains(&xa)), slack_to_member(s), &xq, &mut t)?;
    }
    simplex_check(n)?;

    ctx.count("points_inside", t.inside);
    ctx.count("points_boundary", t.boundary);
    ctx.count("points_outside", t.outside);
    ctx.count("dead_zone_unjudged", t.dead);
    ctx.class(&format!("dim{n}"));
    ctx.set_nontrivial(t.inside > 0 && t.outside > 0 && t.boundary > 0 && (nonsym || n == 1));
    Ok(())
}

/// simplex(d): d+1 facets; vertices (intersection of d facets) pairwise sqrt(2) apart; origin strictly
/// inside; contains() consistent with the H-representation at the vertices and slightly beyond.
fn simplex_check(d: usize) -> CaseResult {
    let s = must("simplex", || Polytope::simplex(d))?;
    chk!(s.indim() == d && s.n_constraints() == d + 1, "simplex({d}) has shape {}x{}", s.n_constraints(), s.indim());
    chk!(s.bias.iter().all(|b| *b > 0.0), "simplex({d}): the origin is not strictly inside");
    let mut verts: Vec<Vec<f64>> = Vec::new();
    for skip in 0..=d {
        let rows: Vec<usize> = (0..=d).filter(|i| *i != skip).collect();
        let mut a = Array2::<f64>::zeros((d, d + 1));
        for (ri, &r) in rows.iter().enumerate() {
            for j in 0..d {
                a[[ri, j]] = s.mat[[r, j]];
            }
            a[[ri, d]] = s.bias[r];
        }
        // gaussian elimination with partial pivoting
        for col in 0..d {
            let piv = (col..d).max_by(|&x, &y| a[[x, col]].abs().partial_cmp(&a[[y, col]].abs()).unwrap()).unwrap();
            chk!(a[[piv, col]].abs() > 1e-12, "simplex({d}): facets {rows:?} do not meet in a point");
            if piv != col {
                for j in 0..=d {
                    let tmp = a[[piv, j]];
                    a[[piv, j]] = a[[col, j]];
                    a[[col, j]] = tmp;
                }
            }
            for r in 0..d {
                if r != col {
                    let f = a[[r, col]] / a[[col, col]];
                    for j in 0..=d {
                        a[[r, j]] -= f * a[[col, j]];
                    }
                }
            }
        }
        let v: Vec<f64> = (0..d).map(|i| a[[i, d]] / a[[i, i]]).collect();
        verts.push(v);
    }
    for i in 0..verts.len() {
        for j in 0..i {
            let dist: f64 = verts[i].iter().zip(&verts[j]).map(|(a, b)| (a - b).powi(2)).sum::<f64>().sqrt();
            chk!((dist - 2f64.sqrt()).abs() < 1e-9, "simplex({d}): vertices {i} and {j} are {dist} apart, expected sqrt(2)");
        }
    }
    for (vi, v) in verts.iter().enumerate() {
        // the vertex, pulled slightly towards the origin, must be inside; pushed away, outside
        let inside: Vec<f64> = v.iter().map(|x| x * (1.0 - 1e-4)).collect();
        let outside: Vec<f64> = v.iter().map(|x| x * (1.0 + 1e-4)).collect();
        chk!(s.contains(&arr(&inside)), "simplex({d}): point just inside vertex {vi} is reported outside");
        chk!(!s.contains(&arr(&outside)), "simplex({d}): point just beyond vertex {vi} is reported inside");
    }
    Ok(())
}

pub struct C14;

impl Property for C14 {
    type Case = Case;
    fn id(&self) -> &'static str {
        "C14"
    }
    fn rule(&self) -> String {
        "dims 1..5 (thorough 1..6); polytopes from row classes (random, duplicate, +/- multiples, parallel, zero rows, equality pairs, axis bounds, rows through anchor points); points = anchors, lattice neighbours, free lattice points and images; contains()/distance() of intersection(_n), translate, apply_pre, apply_post (unimodular, non-symmetric M with exact inverse), rotate (signed permutation), and of every constructor are compared with exact rational membership of the defining pre-image (dead zone (-1e-6,0) unjudged and counted). Non-trivial = the case judged at least one inside, one outside and one exact-boundary point and the post map is not symmetric; distinct = distinct serialised cases".into()
    }
    fn assumptions(&self) -> Vec<String> {
        vec![
            "contains() tolerance 1e-8 on the raw distance (documented): must be true for exact slack >= 0, false for slack < -1e-6, unjudged in between (unreachable with dyadic data; counted)".into(),
            "apply_post/rotate: exact verdicts (boundary included) with exactly invertible integer maps; non-representable rotations (Givens products with Pythagorean entries) and inverses (with 1/3, 1/5, 1/7 scalings) are judged only where the exact slack clears an explicit rounding bound".into(),
            "simplex(d) is checked definitionally in f64 with 1e-9 tolerance (its coefficients are irrational)".into(),
            "hyperrectangle/axis_bounds get lower <= upper".into(),
        ]
    }
    fn cases(&self, tier: Tier) -> usize {
        tier.pick(60000, 2_000_000)
    }
    fn strategy(&self, tier: Tier) -> BoxedStrategy<Case> {
        strategy(tier.pick(5, 6))
    }
    fn run(&self, case: &Case, ctx: &mut Ctx) -> CaseResult {
        run_case(case, ctx)
    }
}
