//! C13 — traversals and tree metrics are exact for every shape and start node.

use super::c12::{lab, op_strategy, resolve, Op};
use crate::runner::*;
use crate::treemodel::*;
use affinitree::linalg::affine::AffFunc;
use affinitree::pwl::iter::PolyhedraIter;
use affinitree::pwl::node::AffContent;
use affinitree::tree::graph::Tree;
use affinitree::tree::iter::{Bfs, DfsEdge, DfsPre, TraversalMut};
use proptest::prelude::*;
use serde::{Deserialize, Serialize};
use std::collections::BTreeSet;

#[derive(Clone, Debug, Serialize, Deserialize)]
pub struct Case {
    pub k: u8,
    pub build: Vec<Op>,
    pub start: u16,
    /// 0 DfsPre, 1 DfsEdge, 2 Bfs, 3 PolyhedraIter (K = 2 only; falls back to DfsPre for K = 3)
    pub kind: u8,
    /// true = next, false = skip_subtree; a leading `next` is always prepended
    pub script: Vec<bool>,
    /// a path of this many extra nodes is hung below the root before the build ops run (deep trees:
    /// depth counters, capacity computations)
    #[serde(default)]
    pub chain: u8,
    /// rare "large arena" cases: this many nodes are added at pseudo-random free slots before the build ops run
    /// (traversals that return more than 1024 items)
    #[serde(default)]
    pub bulk: u16,
}

/// Replays build ops on a tree with arbitrary node values; errors and documented panics are ignored
/// (C12 judges them).  Both value types see the same slab behaviour, hence the same indices.
fn build<N, const K: usize>(ops: &[Op], chain: u8, bulk: u16, mk: &dyn Fn(i64) -> N) -> (Tree<N, K>, Model) {
    let mut t = Tree::<N, K>::new();
    let root = t.add_root(mk(100));
    let mut m = Model::new(K, root, 100);
    let mut cur = root;
    // values above 120 encode long chains: 120 + 4 * (chain - 120), i.e. up to 660 nodes (depth counters of one byte)
    let chain_len = if chain > 120 { 120 + 4 * (chain as usize - 120) } else { chain as usize };
    for i in 0..chain_len {
        let l = (i * 7 + 3) % K;
        match guard(|| t.add_child_node(cur, l, mk(i as i64))) {
            Ok(Ok(idx)) => {
                m.add(cur, l, idx, i as i64);
                cur = idx;
            }
            _ => break,
        }
    }
    if bulk > 0 {
        crate::treemodel::bulk_grow(&mut t, &mut m, bulk as usize, bulk as u64, mk);
    }
    for op in ops {
        match op {
            Op::Add { p, label, v } => {
                let (pi, l) = (resolve(&m, p), lab(*label, K));
                if m.can_add(pi, l).is_ok() {
                    if let Ok(Ok(idx)) = guard(|| t.add_child_node(pi, l, mk(*v as i64))) {
                        m.add(pi, l, idx, *v as i64);
                    }
                }
            }
            Op::TryRemove { p, label } | Op::Remove { p, label } => {
                let (pi, l) = (resolve(&m, p), lab(*label, K));
                let mut m2 = m.clone();
                if m2.try_remove_child(pi, l).is_ok() && matches!(guard(|| t.try_remove_child(pi, l).is_ok()), Ok(true)) {
                    m = m2;
                }
            }
            Op::RemoveDesc { n } => {
                let ni = resolve(&m, n);
                let mut m2 = m.clone();
                if m2.remove_descendants(ni).is_ok() && matches!(guard(|| t.remove_all_descendants(ni).is_ok()), Ok(true)) {
                    m = m2;
                }
            }
            Op::Merge { p, label } => {
                let (pi, l) = (resolve(&m, p), lab(*label, K));
                let mut m2 = m.clone();
                if m2.merge(pi, l).is_ok() && matches!(guard(|| t.merge_child_with_parent(pi, l).is_ok()), Ok(true)) {
                    m = m2;
                }
            }
            Op::Update { .. } => {}
        }
    }
    (t, m)
}

fn shape_of<N, const K: usize>(t: &Tree<N, K>) -> Vec<(usize, Option<usize>, Vec<Option<usize>>)> {
    t.node_iter().map(|(i, n)| (i, n.parent, n.children.to_vec())).collect()
}

type Tup = (usize, usize, usize, usize, usize); // index, depth, n_remaining, src, label (unused fields = 0)

fn check_hint(what: &str, hint: (usize, Option<usize>), remaining: usize) -> Result<(), String> {
    if hint.0 > remaining {
        return Err(format!("{what}: size_hint lower bound {} exceeds the {} items still to come", hint.0, remaining));
    }
    if let Some(ub) = hint.1 {
        if ub < remaining {
            return Err(format!("{what}: size_hint upper bound {} is below the {} items still to come", ub, remaining));
        }
    }
    Ok(())
}

fn run_script<T, N, const K: usize>(
    name: &str,
    tree: &Tree<N, K>,
    m: &Model,
    start: usize,
    kind: Kind,
    script: &[bool],
    conv: &dyn Fn(T::Item) -> Tup,
    exp: &dyn Fn(&Item) -> Tup,
    ctx: &mut Ctx,
) -> Result<(), String>
where
    T: TraversalMut + Clone,
{
    let mut lib = guard(|| T::new(tree, start)).map_err(|p| format!("{name}::new({start}) panicked: {p}"))?;
    let mut rf = RefTraversal::new(m, start, kind);
    let cap = m.nodes.len() + 3;
    let drain = |t: &T| -> Result<usize, String> {
        let mut c = t.clone();
        let mut n = 0;
        loop {
            match guard(|| c.next(tree)) {
                Err(p) => return Err(format!("{name}: draining a clone panicked: {p}")),
                Ok(None) => return Ok(n),
                Ok(Some(_)) => {
                    n += 1;
                    if n > cap {
                        return Err(format!("{name}: traversal yields more than {cap} items"));
                    }
                }
            }
        }
    };
    let rem = drain(&lib)?;
    check_hint(&format!("{name} from {start} before the first item"), lib.size_hint(), rem)?;
    let mut exhausted = false;
    let mut steps = vec![true];
    steps.extend_from_slice(script);
    if m.nodes.len() > 60 && !script.is_empty() {
        // deep trees: repeat the script so that the traversal gets far down
        while steps.len() < m.nodes.len() + 10 {
            steps.extend_from_slice(script);
        }
    }
    for (si, &is_next) in steps.iter().enumerate() {
        if exhausted {
            break;
        }
        let what;
        if is_next {
            let got = guard(|| lib.next(tree)).map_err(|p| format!("{name} step {si}: next panicked: {p}"))?;
            let e = rf.next();
            what = format!("{name} from {start}, after next #{si}");
            match (got, e) {
                (None, None) => exhausted = true,
                (Some(g), Some(e)) => {
                    let (g, e) = (conv(g), exp(&e));
                    if g != e {
                        return Err(format!("{what}: got (index,depth,n_remaining,src,label)={g:?}, expected {e:?}"));
                    }
                }
                (Some(g), None) => return Err(format!("{what}: got extra item {:?} after the subtree was exhausted", conv(g))),
                (None, Some(e)) => return Err(format!("{what}: traversal ended but {:?} was still to come", exp(&e))),
            }
        } else {
            guard(|| lib.skip_subtree()).map_err(|p| format!("{name} step {si}: skip_subtree panicked: {p}"))?;
            let removed = rf.skip(m);
            if removed > 0 {
                ctx.class("skip_nonempty");
            }
            if si > 0 && !steps[si - 1] {
                ctx.class("repeated_skip");
            }
            what = format!("{name} from {start}, after skip_subtree at step {si}");
        }
        if !exhausted {
            let rem = drain(&lib)?;
            if rem != rf.pending.len() {
                // find the first differing item for the message
                let mut c = lib.clone();
                let mut k = 0;
                let mut pend = rf.pending.iter();
                loop {
                    let g = guard(|| c.next(tree)).ok().flatten().map(|x| conv(x));
                    let e = pend.next().map(|x| exp(x));
                    if g != e || g.is_none() {
                        return Err(format!("{what}: {rem} items remain but {} expected; first difference at offset {k}: got {g:?}, expected {e:?}", rf.pending.len()));
                    }
                    k += 1;
                }
            }
            check_hint(&what, lib.size_hint(), rem)?;
        }
    }
    Ok(())
}

fn metrics<const K: usize>(t: &Tree<i64, K>, m: &Model) -> Result<(), String> {
    let live = m.live();
    let leaves: Vec<usize> = live.iter().copied().filter(|i| m.num_children(*i) == 0).collect();
    let decs: Vec<usize> = live.iter().copied().filter(|i| m.num_children(*i) > 0).collect();
    let g = |what: &str, got: Vec<usize>, exp: &Vec<usize>| -> Result<(), String> {
        if &got != exp {
            Err(format!("{what} = {got:?}, expected {exp:?}"))
        } else {
            Ok(())
        }
    };
    g("node_indices()", t.node_indices().collect(), &live)?;
    g("terminal_indices()", t.terminal_indices().collect(), &leaves)?;
    g("decision_indices()", t.decision_indices().collect(), &decs)?;
    g("nodes()", t.nodes().map(|n| n.idx).collect(), &live)?;
    g("terminals()", t.terminals().map(|n| n.idx).collect(), &leaves)?;
    g("decisions()", t.decisions().map(|n| n.idx).collect(), &decs)?;
    g("node_iter()", t.node_iter().map(|(i, _)| i).collect(), &live)?;
    for n in t.nodes() {
        if *n.value != m.nodes[&n.idx].value {
            return Err(format!("nodes(): value of {} is {} expected {}", n.idx, n.value, m.nodes[&n.idx].value));
        }
    }
    let edges: BTreeSet<(usize, usize, usize)> = guard(|| t.edge_iter().map(|e| (e.source_idx, e.label, e.target_idx)).collect::<Vec<_>>())
        .map_err(|p| format!("edge_iter panicked: {p}"))?
        .into_iter()
        .collect();
    let mut exp_edges = BTreeSet::new();
    for (&i, n) in &m.nodes {
        for (l, c) in n.children.iter().enumerate() {
            if let Some(c) = c {
                exp_edges.insert((i, l, *c));
            }
        }
    }
    if edges != exp_edges {
        return Err(format!("edge_iter() as a set = {edges:?}, expected {exp_edges:?}"));
    }
    if t.edge_iter().count() != exp_edges.len() {
        return Err("edge_iter() yields duplicates".into());
    }
    if t.num_terminals() != leaves.len() {
        return Err(format!("num_terminals() = {}, expected {}", t.num_terminals(), leaves.len()));
    }
    for &i in &live {
        let e = 1 + m.descendants(i).len();
        let got = guard(|| t.num_nodes(i)).map_err(|p| format!("num_nodes({i}) panicked: {p}"))?;
        if got != e {
            return Err(format!("num_nodes({i}) = {got}, expected {e}"));
        }
    }
    let pre = preorder(m, m.root);
    let maxd = pre.iter().map(|i| i.depth).max().unwrap_or(0);
    let got = guard(|| t.depth()).map_err(|p| format!("depth panicked: {p}"))?;
    if got != maxd {
        return Err(format!("depth() = {got}, expected {maxd} (maximal number of ancestors)"));
    }
    let ld: Vec<f64> = pre.iter().filter(|i| m.num_children(i.index) == 0).map(|i| i.depth as f64).collect();
    let (mn, mean, var, mx) = guard(|| t.depth_stats()).map_err(|p| format!("depth_stats panicked: {p}"))?;
    let emn = ld.iter().cloned().fold(f64::INFINITY, f64::min);
    let emx = ld.iter().cloned().fold(f64::NEG_INFINITY, f64::max);
    let emean = ld.iter().sum::<f64>() / ld.len() as f64;
    let close = |a: f64, b: f64| (a - b).abs() <= 1e-9 * (1.0 + b.abs());
    if !close(mn, emn) || !close(mx, emx) || !close(mean, emean) {
        return Err(format!("depth_stats() = (min {mn}, mean {mean}, max {mx}), expected (min {emn}, mean {emean}, max {emx})"));
    }
    if ld.len() >= 2 {
        let evar = ld.iter().map(|d| (d - emean).powi(2)).sum::<f64>() / (ld.len() as f64 - 1.0);
        if !close(var, evar) {
            return Err(format!("depth_stats() variance {var}, expected sample variance {evar}"));
        }
    }
    // whole-tree traversals offered by Tree
    let d: Vec<usize> = guard(|| t.dfs_iter().map(|x| x.index).collect()).map_err(|p| format!("dfs_iter panicked: {p}"))?;
    let ed: Vec<usize> = pre.iter().map(|i| i.index).collect();
    if d != ed {
        return Err(format!("dfs_iter() order {d:?}, expected {ed:?}"));
    }
    if ed != preorder_by_sort(m, m.root) {
        return Err(format!("{}: the two reference preorders disagree", crate::lp::ORACLE_ERR));
    }
    let de: Vec<(usize, usize, usize)> = guard(|| t.dfs_edge_iter().map(|e| (e.src, e.label, e.dest)).collect()).map_err(|p| format!("dfs_edge_iter panicked: {p}"))?;
    let ede: Vec<(usize, usize, usize)> = pre.iter().skip(1).map(|i| (i.src, i.label, i.index)).collect();
    if de != ede {
        return Err(format!("dfs_edge_iter() = {de:?}, expected {ede:?}"));
    }
    // the standard iterator adaptors must see what repeated next() yields
    let k = (d.len() * 5 + 3) % (d.len() + 1);
    let step = 1 + d.len() % 3;
    let via: Vec<(&str, Result<Vec<usize>, String>, Vec<usize>)> = vec![
        ("dfs_iter().nth(k)", guard(|| t.dfs_iter().nth(k).iter().map(|x| x.index).collect()), ed.iter().skip(k).take(1).copied().collect()),
        ("dfs_iter().skip(k)", guard(|| t.dfs_iter().skip(k).map(|x| x.index).collect()), ed.iter().skip(k).copied().collect()),
        ("dfs_iter().step_by(s)", guard(|| t.dfs_iter().step_by(step).map(|x| x.index).collect()), ed.iter().step_by(step).copied().collect()),
        ("dfs_iter().last()", guard(|| t.dfs_iter().last().iter().map(|x| x.index).collect()), ed.last().copied().into_iter().collect()),
        ("dfs_edge_iter().skip(k)", guard(|| t.dfs_edge_iter().skip(k).map(|e| e.dest).collect()), ede.iter().skip(k).map(|e| e.2).collect()),
        ("dfs_edge_iter().nth(k) then the rest", guard(|| { let mut it = t.dfs_edge_iter(); let _ = it.nth(k); it.map(|e| e.dest).collect() }), ede.iter().skip(k + 1).map(|e| e.2).collect()),
    ];
    for (name, got, exp) in via {
        let got = got.map_err(|p| format!("{name} panicked: {p}"))?;
        if got != exp {
            return Err(format!("{name} with k={k}, s={step} yields {got:?}, repeated next() yields {exp:?}"));
        }
    }
    let cnt = guard(|| t.dfs_iter().count()).map_err(|p| format!("dfs_iter().count() panicked: {p}"))?;
    if cnt != ed.len() {
        return Err(format!("dfs_iter().count() = {cnt}, {} items are yielded", ed.len()));
    }
    Ok(())
}

fn run_k<const K: usize>(case: &Case, ctx: &mut Ctx) -> CaseResult {
    let (t, m) = build::<i64, K>(&case.build, case.chain, case.bulk, &|v| v);
    if let Err(e) = compare(&t, &m) {
        // shape construction itself went wrong: that is C12's business
        ctx.class("shape_mismatch_skipped");
        let _ = e;
        return Ok(());
    }
    let live = m.live();
    // large arenas: start at one of the first nodes so that one traversal returns more than 1024 items
    ctx.class_if(case.bulk > 0, "large_arena");
    let start = if case.bulk > 0 { live[pick(case.start, live.len().min(3))] } else { live[pick(case.start, live.len())] };
    let below_root = start != m.root;
    ctx.class_if(below_root, "start_below_root");
    ctx.class_if(live.len() >= 6, "ge6_nodes");
    ctx.class_if(live.iter().enumerate().any(|(pos, i)| pos != *i), "index_holes");
    metrics(&t, &m).map_err(|s| Failure::new(format!("K={K}: {s}")))?;
    let node_conv = |d: affinitree::tree::iter::DfsNodeData| -> Tup { (d.index, d.depth, d.n_remaining, 0, 0) };
    let node_exp = |i: &Item| -> Tup { (i.index, i.depth, i.n_remaining, 0, 0) };
    let r = match case.kind % 4 {
        0 => {
            ctx.class("dfs_pre");
            run_script::<DfsPre, i64, K>("DfsPre", &t, &m, start, Kind::DfsPre, &case.script, &node_conv, &node_exp, ctx)
        }
        1 => {
            ctx.class("dfs_edge");
            run_script::<DfsEdge, i64, K>(
                "DfsEdge",
                &t,
                &m,
                start,
                Kind::DfsEdge,
                &case.script,
                &|e: affinitree::tree::iter::EdgeData| (e.dest, 0, 0, e.src, e.label),
                &|i: &Item| (i.index, 0, 0, i.src, i.label),
                ctx,
            )
        }
        2 => {
            ctx.class("bfs");
            run_script::<Bfs, i64, K>("Bfs", &t, &m, start, Kind::Bfs, &case.script, &node_conv, &node_exp, ctx)
        }
        _ => {
            if K == 2 {
                ctx.class("polyhedra_iter");
                polyhedra_script(case, &m, ctx)
            } else {
                ctx.class("dfs_pre");
                run_script::<DfsPre, i64, K>("DfsPre", &t, &m, start, Kind::DfsPre, &case.script, &node_conv, &node_exp, ctx)
            }
        }
    };
    r.map_err(|s| Failure::new(format!("K={K}: {s}")))?;
    let nt = (below_root || ctx.classes.contains("skip_nonempty")) && live.len() >= 6;
    ctx.set_nontrivial(nt);
    Ok(())
}

fn polyhedra_script(case: &Case, m: &Model, ctx: &mut Ctx) -> Result<(), String> {
    let (t, m2) = build::<AffContent, 2>(&case.build, case.chain, case.bulk, &|v| {
        AffContent::new(AffFunc::from_mats(ndarray::arr2(&[[1.0]]), ndarray::arr1(&[v as f64])))
    });
    if m2 != *m || shape_of(&t).iter().map(|x| x.0).collect::<Vec<_>>() != m.live() {
        return Err(format!("{}: AffContent replay produced a different shape", crate::lp::ORACLE_ERR));
    }
    let mut it = PolyhedraIter::new(&t);
    let mut rf = RefTraversal::new(m, m.root, Kind::DfsPre);
    let cap = m.nodes.len() + 3;
    let drain = |it: &PolyhedraIter<2>| -> Result<usize, String> {
        let mut c = PolyhedraIter { iter: it.iter.clone(), tree: it.tree };
        let mut n = 0;
        loop {
            match guard(|| c.next()) {
                Err(p) => return Err(format!("PolyhedraIter: draining a clone panicked: {p}")),
                Ok(None) => return Ok(n),
                Ok(Some(_)) => {
                    n += 1;
                    if n > cap {
                        return Err("PolyhedraIter yields too many items".into());
                    }
                }
            }
        }
    };
    check_hint("PolyhedraIter before the first item", it.size_hint(), drain(&it)?)?;
    let mut steps = vec![true];
    steps.extend_from_slice(&case.script);
    for (si, &is_next) in steps.iter().enumerate() {
        let what;
        if is_next {
            let got = guard(|| it.next()).map_err(|p| format!("PolyhedraIter step {si}: next panicked: {p}"))?;
            let e = rf.next();
            what = format!("PolyhedraIter after next #{si}");
            match (got, e) {
                (None, None) => break,
                (Some((d, i, r, polys)), Some(e)) => {
                    if (d, i, r) != (e.depth, e.index, e.n_remaining) {
                        return Err(format!("{what}: got (depth,index,n_remaining)=({d},{i},{r}), expected ({},{},{})", e.depth, e.index, e.n_remaining));
                    }
                    if polys.len() != e.depth {
                        return Err(format!("{what}: node {i} at depth {d} reported with {} half-spaces", polys.len()));
                    }
                }
                (Some(g), None) => return Err(format!("{what}: extra item for node {}", g.1)),
                (None, Some(e)) => return Err(format!("{what}: ended but node {} was still to come", e.index)),
            }
        } else {
            guard(|| it.skip_subtree()).map_err(|p| format!("PolyhedraIter step {si}: skip_subtree panicked: {p}"))?;
            if rf.skip(m) > 0 {
                ctx.class("skip_nonempty");
            }
            what = format!("PolyhedraIter after skip_subtree at step {si}");
        }
        let rem = drain(&it)?;
        if rem != rf.pending.len() {
            return Err(format!("{what}: {rem} items remain, expected {}", rf.pending.len()));
        }
        check_hint(&what, it.size_hint(), rem)?;
    }
    Ok(())
}

pub struct C13;

impl Property for C13 {
    type Case = Case;
    fn id(&self) -> &'static str {
        "C13"
    }
    fn rule(&self) -> String {
        "tree shapes produced by generated add/remove/merge histories (K in {2,3}; holes and reused arena indices) x start node (any live node) x traversal kind (DfsPre, DfsEdge, Bfs, PolyhedraIter) x script over {next, skip_subtree} (first step is next; repeated skips included); item streams, depth, n_remaining, remaining-count after every step and size_hint bracketing are compared with a reference traversal computed from raw child arrays; index-order iterators, num_nodes, num_terminals, depth, depth_stats, dfs_iter, dfs_edge_iter compared with direct computation; rare regimes: a chain of up to 120 nodes below the root, and large arenas (1100-3000 nodes, traversal started near the root so that it returns more than 1024 items). Non-trivial = tree has >= 6 nodes AND (start below the root OR a skip that removed a non-empty set); distinct = distinct serialised cases".into()
    }
    fn assumptions(&self) -> Vec<String> {
        vec![
            "trees have a root (dfs_iter on Tree::new() unwraps None; excluded)".into(),
            "skip_subtree is only called after at least one item was returned and before exhaustion ('descendants of the last returned item')".into(),
            "depth() follows test_depth (max number of ancestors), not the contradictory doc sentence".into(),
            "depth_stats variance judged only for >= 2 leaves; 1e-9 relative tolerance".into(),
        ]
    }
    fn cases(&self, tier: Tier) -> usize {
        tier.pick(150000, 3_000_000)
    }
    fn strategy(&self, tier: Tier) -> BoxedStrategy<Case> {
        let max = tier.pick(30, 120);
        (
            prop_oneof![Just(2u8), Just(3u8)],
            prop_oneof![19 => proptest::collection::vec(op_strategy(), 0..max), 1 => proptest::collection::vec(op_strategy(), max..(4 * max))],
            any::<u16>(),
            0u8..4,
            proptest::collection::vec(prop_oneof![3 => Just(true), 1 => Just(false)], 0..tier.pick(24, 60)),
            prop_oneof![60 => Just(0u8), 2 => 1u8..=40, 2 => 60u8..=120, 1 => 160u8..=255],
        )
            .prop_flat_map(|(k, build, start, kind, script, chain)| (Just((k, build, start, kind, script, chain)), prop_oneof![299 => Just(0u16), 1 => 1100u16..3000]))
            .prop_map(|((k, build, start, kind, script, chain), bulk)| Case { k, build, start, kind, script, chain, bulk })
            .boxed()
    }
    fn run(&self, case: &Case, ctx: &mut Ctx) -> CaseResult {
        match case.k {
            2 => run_k::<2>(case, ctx),
            3 => run_k::<3>(case, ctx),
            k => Err(Failure::new(format!("unsupported k {k}"))),
        }
    }
}
