//! C04 — every operation history keeps a tree well-formed and usable.

use crate::hist::*;
use crate::histcheck::*;
use crate::runner::*;
use proptest::prelude::*;

pub struct C04;

pub fn run_case(h: &History, ctx: &mut Ctx) -> CaseResult {
    let mut st = init(h)?;
    check_wellformed(&st, "the constructor")?;
    let mut seen_unpruned_compose = false;
    let mut structural = 0;
    let mut nontrivial_pattern = false;
    let mut executed = 0;
    for (i, op) in h.ops.iter().enumerate() {
        let was_partial = !is_total(&st);
        let info = step(&mut st, op).map_err(|f| Failure::with(format!("step {i}: {}", f.msg), f.detail))?;
        if info.skipped {
            ctx.count("ops_skipped", 1);
            continue;
        }
        executed += 1;
        let after = format!("step {i} ({})", info.desc);
        check_wellformed(&st, &after)?;
        if info.structural {
            structural += 1;
        }
        if info.pruning && (seen_unpruned_compose || was_partial || info.partial_operand) {
            nontrivial_pattern = true;
        }
        if info.unpruned_compose {
            seen_unpruned_compose = true;
        }
        // while the reference is tracked, also compare the function so that a mis-shaped terminal
        // is caught even when the output dimension happens to coincide
        if st.tracking && st.t.len() <= 64 {
            let inputs = inputs_of(h, &st);
            let out = check_function(&st, &inputs, true, &after)?;
            ctx.count("function_checks", 1);
            ctx.count("thin_exempt", out.thin_exempt as u64);
        }
    }
    ctx.count("ops_executed", executed);
    ctx.count("final_nodes", st.t.len() as u64);
    ctx.class_if(!st.tracking, "reference_dropped");
    ctx.class(match &h.ctor {
        Ctor::New => "ctor_new",
        Ctor::FromAff(_) => "ctor_from_aff",
        Ctor::FromPoly { ff: Some(_), .. } => "ctor_from_poly_else",
        Ctor::FromPoly { ff: None, .. } => "ctor_from_poly_partial",
        Ctor::Schema(_) => "ctor_schema",
        Ctor::Tree(_) => "ctor_tree",
    });
    ctx.set_nontrivial(nontrivial_pattern && structural >= 3);
    Ok(())
}

pub fn is_total(st: &HState) -> bool {
    // every decision has all 2^rows children
    st.t.tree.node_iter().all(|(_, n)| {
        let k = n.children.iter().filter(|c| c.is_some()).count();
        k == 0 || k == (1usize << n.value.aff.outdim()).min(2)
    })
}

pub const W_ALL: OpWeights = OpWeights { apply: 3, compose_unpruned: 4, compose_pruned: 4, eliminate: 4, reduce: 2, arith_tree: 3, arith_aff: 2 };

impl Property for C04 {
    type Case = History;
    fn id(&self) -> &'static str {
        "C04"
    }
    fn rule(&self) -> String {
        "histories: constructor in {new, from_aff, from_poly with/without else, every schema, generated tree (total/partial)} followed by <= 8 (thorough 16) operations over {apply_func, compose<false>, compose<true> (schema or generated tree, total/partial), infeasible_elimination, reduce, tree+tree, tree-tree (4 ownership variants), neg, tree+-aff, aff+-tree} with arguments made dimension-compatible with the model's tracked output dimension; after every step the C04 invariant (column counts, common terminal output dimension, rows allowed by K, leaf <=> no children, link invariants) is checked on the raw arena, every step must return without panic, and while the reference function is tracked the function is compared too. Non-trivial = a pruning op after an unpruned composition or on a partial tree/operand AND >= 3 structure-changing ops; distinct = distinct serialised histories".into()
    }
    fn assumptions(&self) -> Vec<String> {
        vec![
            "K = 2; arguments are dimension-compatible (matrix shapes projected to the tracked dimensions)".into(),
            "compositions that would create more than 400 terminal x node pairs are skipped and counted".into(),
        ]
    }
    fn cases(&self, tier: Tier) -> usize {
        tier.pick(15000, 300_000)
    }
    fn strategy(&self, tier: Tier) -> BoxedStrategy<History> {
        history(W_ALL, tier.pick(8, 16))
    }
    fn run(&self, case: &History, ctx: &mut Ctx) -> CaseResult {
        run_case(case, ctx)
    }
}
