//! C04 — every operation history keeps a tree well-formed and usable.

use crate::hist::*;
use crate::histcheck::*;
use crate::runner::*;
use proptest::prelude::*;

pub struct C04;

pub fn run_case(h: &History, ctx: &mut Ctx) -> CaseResult {
    let mut st = init(h)?;
    ctx.class_if(h.shift > 0, "data_far_from_origin");
    check_wellformed(&st, "the constructor")?;
    let mut seen_unpruned_compose = false;
    let mut structural = 0;
    let mut nontrivial_pattern = false;
    let mut executed = 0;
    for (i, op) in h.ops.iter().enumerate() {
        let was_partial = !is_total(&st);
        let info = step(&mut st, op).map_err(|f| Failure::with(format!("step {i}: {}", f.msg), f.detail))?;
        if info.skipped {
            ctx.count("ops_skipped", 1);
            continue;
        }
        executed += 1;
        let after = format!("step {i} ({})", info.desc);
        check_wellformed(&st, &after)?;
        if info.structural {
            structural += 1;
        }
        if info.pruning && (seen_unpruned_compose || was_partial || info.partial_operand) {
            nontrivial_pattern = true;
        }
        if info.unpruned_compose {
            seen_unpruned_compose = true;
        }
        // while the reference is tracked, also compare the function so that a mis-shaped terminal
        // is caught even when the output dimension happens to coincide
        if st.tracking && st.t.len() <= 64 {
            let inputs = inputs_of(h, &st);
            let out = check_function(&st, &inputs, true, &after)?;
            ctx.count("function_checks", 1);
            ctx.count("thin_exempt", out.thin_exempt as u64);
            ctx.count("inputs_not_judged_rounding", out.rounding_skipped as u64);
        }
    }
    ctx.class_if(st.t.tree.depth() > 64, "path_longer_than_64_edges");
    ctx.count("ops_executed", executed);
    ctx.count("final_nodes", st.t.len() as u64);
    ctx.class_if(!st.tracking, "reference_dropped");
    ctx.class(match &h.ctor {
        Ctor::New => "ctor_new",
        Ctor::FromAff(_) => "ctor_from_aff",
        Ctor::FromPoly { ff: Some(_), .. } => "ctor_from_poly_else",
        Ctor::FromPoly { ff: None, .. } => "ctor_from_poly_partial",
        Ctor::Schema(_) => "ctor_schema",
        Ctor::Tree(_) => "ctor_tree",
    });
    ctx.set_nontrivial(nontrivial_pattern && structural >= 3);
    Ok(())
}

pub fn is_total(st: &HState) -> bool {
    // every decision has all 2^rows children
    st.t.tree.node_iter().all(|(_, n)| {
        let k = n.children.iter().filter(|c| c.is_some()).count();
        k == 0 || k == (1usize << n.value.aff.outdim()).min(2)
    })
}

/// A one-dimensional network of 66..96 layers `x -> relu(x - c_i)` distilled layer by layer with pruning: the
/// tree becomes a chain whose deepest path has one decision per layer, i.e. more than 64 edges.  Nothing else in
/// the generators produces AffTree paths that long (depth <= 6 plus <= 16 operations), and code that walks or
/// buffers a root-to-node path is exercised only there.  The history ends with a few ordinary operations.
fn deep_history() -> BoxedStrategy<History> {
    use crate::gen::{Aff, Mat};
    use crate::schema::SchemaSpec;
    (66usize..=96, proptest::collection::vec(prop_oneof![Just(1.0), Just(0.5), Just(2.0), Just(0.25)], 4), proptest::collection::vec(hop(W_ALL), 0..3), any::<bool>())
        .prop_map(|(layers, steps, tail, prune_all)| {
            let mut ops = Vec::new();
            for i in 0..layers {
                let c = steps[i % steps.len()];
                let a = Aff { mat: Mat { rows: vec![vec![1.0, 0.0, 0.0], vec![0.0; 3], vec![0.0; 3]], cols: 3 }, bias: vec![-c, 0.0, 0.0] };
                ops.push(HOp::ApplyFunc { a, out: 0 });
                ops.push(HOp::Compose { prune: true, g: GSpec::Schema(SchemaSpec::ReLU { row: 0 }), out: 0 });
                if !prune_all && i % 8 == 7 {
                    ops.push(HOp::Eliminate);
                }
            }
            ops.extend(tail);
            History { in_dim: 1, out0: 0, ctor: Ctor::New, ops, points: vec![crate::gen::PointSpec::Anchor(0)], anchors: vec![vec![0.0, 0.0, 0.0]], shift: 0 }
        })
        .boxed()
}

pub const W_ALL: OpWeights = OpWeights { apply: 3, compose_unpruned: 4, compose_pruned: 4, eliminate: 4, reduce: 2, arith_tree: 3, arith_aff: 2 };

impl Property for C04 {
    type Case = History;
    fn id(&self) -> &'static str {
        "C04"
    }
    fn rule(&self) -> String {
        "histories: constructor in {new, from_aff, from_poly with/without else, every schema, generated tree (total/partial)} followed by <= 8 (thorough 16) operations over {apply_func, compose<false>, compose<true> (schema or generated tree, total/partial), infeasible_elimination, reduce, tree+tree, tree-tree (4 ownership variants), neg, tree+-aff, aff+-tree} with arguments made dimension-compatible with the model's tracked output dimension; 1 case in 1500 is a one-dimensional network of 66-96 pruned ReLU layers (paths longer than 64 edges); after every step the C04 invariant (column counts, common terminal output dimension, rows allowed by K, leaf <=> no children, link invariants) is checked on the raw arena, every step must return without panic, and while the reference function is tracked the function is compared too. Non-trivial = a pruning op after an unpruned composition or on a partial tree/operand AND >= 3 structure-changing ops; distinct = distinct serialised histories; 1 history in 25 has its input-space data translated by 2^20..2^30 (data far from the origin)".into()
    }
    fn assumptions(&self) -> Vec<String> {
        vec![
            "K = 2; arguments are dimension-compatible (matrix shapes projected to the tracked dimensions)".into(),
            "compositions that would create more than 400 terminal x node pairs are skipped and counted".into(),
        ]
    }
    fn cases(&self, tier: Tier) -> usize {
        tier.pick(15000, 300_000)
    }
    fn strategy(&self, tier: Tier) -> BoxedStrategy<History> {
        prop_oneof![1499 => history(W_ALL, tier.pick(8, 16)), 1 => deep_history()].boxed()
    }
    fn run(&self, case: &History, ctx: &mut Ctx) -> CaseResult {
        run_case(case, ctx)
    }
}
