//! C15 — constraint clean-up keeps exactly the same point set.

use crate::exact::{qdot, AffQ, Q};
use crate::gen::*;
use crate::lp::{self, Opt, Row};
use crate::pwl::aff_to_q;
use crate::runner::*;
use affinitree::linalg::affine::Polytope;
use proptest::prelude::*;
use serde::{Deserialize, Serialize};
use serde_json::json;

#[derive(Clone, Debug, Serialize, Deserialize)]
pub struct Case {
    pub p: PolySpec,
    pub rm: Vec<bool>,
}

pub const SIG_F10: &str = "C15/redundant_row_kept_via_unbounded_face";

macro_rules! chk {
    ($cond:expr, $($arg:tt)*) => {
        if !($cond) {
            return Err(Failure::new(format!($($arg)*)));
        }
    };
}

fn rows_of(a: &AffQ) -> Vec<Row> {
    (0..a.outdim()).map(|i| Row::le(a.mat[i].clone(), a.bias[i].clone())).collect()
}

fn bits(p: &Polytope) -> Vec<(Vec<u64>, u64)> {
    p.mat.outer_iter().zip(p.bias.iter()).map(|(r, b)| (r.iter().map(|x| x.to_bits()).collect(), b.to_bits())).collect()
}

/// indices (ascending) of input rows matched by the result as a subsequence, bitwise
fn subsequence(input: &Polytope, result: &Polytope) -> Option<Vec<usize>> {
    let (a, b) = (bits(input), bits(result));
    let mut out = Vec::new();
    let mut j = 0;
    for (i, r) in a.iter().enumerate() {
        if j < b.len() && *r == b[j] {
            out.push(i);
            j += 1;
        }
    }
    if j == b.len() {
        Some(out)
    } else {
        None
    }
}

fn is_canonical_empty(p: &Polytope) -> bool {
    p.n_constraints() == 1 && p.mat.iter().all(|x| *x == 0.0) && p.bias[0] == -1.0
}
fn is_canonical_unbounded(p: &Polytope) -> bool {
    p.n_constraints() == 1 && p.mat.iter().all(|x| *x == 0.0) && p.bias[0] == 1.0
}

/// result (a subsequence of the input) must still imply every dropped row
fn same_set(what: &str, input: &AffQ, kept: &[usize], n: usize) -> CaseResult {
    let all = rows_of(input);
    let res: Vec<Row> = kept.iter().map(|i| all[*i].clone()).collect();
    for (i, r) in all.iter().enumerate() {
        if kept.contains(&i) {
            continue;
        }
        if !lp::implies(&res, n, &r.a, &r.b) {
            // witness: a point of the result violating the dropped row
            let w = match lp::maximize(&res, n, &r.a) {
                Opt::Val(_, x) => Some(x),
                _ => None,
            };
            return Err(Failure::with(
                format!("{what} dropped row {i} ({:?} <= {}) which is not implied by the kept rows {kept:?}: the point set grew", r.a, r.b),
                json!({"witness_in_result_violating_dropped_row": w.map(|x| x.iter().map(|v| v.to_string()).collect::<Vec<_>>())}),
            ));
        }
    }
    Ok(())
}

pub fn run_case(c: &Case, ctx: &mut Ctx) -> CaseResult {
    let n = c.p.dim;
    let (pa, tags) = c.p.resolve();
    for t in &tags {
        ctx.class(t);
    }
    let p = pa.poly();
    let pq = pa.q();
    let rows = rows_of(&pq);
    let m = rows.len();
    let exact_nonempty = lp::feasible_closed(&rows, n).is_some();
    ctx.class(if exact_nonempty { "nonempty" } else { "infeasible" });
    if exact_nonempty {
        let fd = lp::full_dim(&rows, n).is_some();
        ctx.class(if fd { "full_dim" } else { "lower_dim" });
        // boundedness: every axis direction bounded both ways
        let mut unb = false;
        for j in 0..n {
            let mut e = vec![Q::zero(); n];
            e[j] = Q::one();
            if matches!(lp::maximize(&rows, n, &e), Opt::Unbounded) || matches!(lp::minimize(&rows, n, &e), Opt::Unbounded) {
                unb = true;
            }
        }
        ctx.class(if unb { "unbounded_set" } else { "bounded_set" });
    }
    let mut dropped_any = false;
    let mut kept_any = false;

    // remove_zero_rows: only rows may be dropped, the set must not change; effectiveness as far as
    // the name goes: no row `0 <= 0` survives
    let r = must("remove_zero_rows", || p.remove_zero_rows())?;
    let kept = subsequence(&p, &r).ok_or_else(|| Failure::new("remove_zero_rows: result is not a subsequence of the input rows"))?;
    same_set("remove_zero_rows", &pq, &kept, n)?;
    if let Some(i) = kept.iter().find(|i| rows[**i].is_zero_row() && rows[**i].b.is_zero()) {
        return Err(Failure::new(format!("remove_zero_rows kept the zero row {i}")));
    }

    // remove_tautologies: an infeasible input MAY be replaced by the canonical empty polytope and an
    // all-tautology input by the canonical unbounded one; otherwise subsequence + same set; effectiveness
    // as documented ("removes row constraints which are always satisfied on their own")
    let r = must("remove_tautologies", || p.remove_tautologies())?;
    let has_false = rows.iter().any(|r| r.is_zero_row() && r.b.is_neg());
    let nontaut: Vec<usize> = (0..m).filter(|i| !rows[*i].is_zero_row()).collect();
    if is_canonical_empty(&r) && (subsequence(&p, &r).is_none() || !exact_nonempty) {
        chk!(!exact_nonempty, "remove_tautologies replaced a non-empty system by the canonical empty polytope");
    } else if is_canonical_unbounded(&r) && (subsequence(&p, &r).is_none() || (nontaut.is_empty() && !has_false)) {
        chk!(nontaut.is_empty() && !has_false, "remove_tautologies returned the canonical unbounded polytope although the input constrains the space");
    } else {
        let kept = subsequence(&p, &r).ok_or_else(|| Failure::new("remove_tautologies: result is not a subsequence of the input rows"))?;
        same_set("remove_tautologies", &pq, &kept, n)?;
        if let Some(i) = kept.iter().find(|i| rows[**i].is_zero_row() && !rows[**i].b.is_neg()) {
            // a tautology may only survive inside an infeasible system that is returned unchanged
            chk!(has_false, "remove_tautologies kept the tautology row {i}");
        }
        dropped_any |= kept.len() < m;
        kept_any |= !kept.is_empty();
    }

    // remove_duplicate_rows
    let r = must("remove_duplicate_rows", || p.remove_duplicate_rows())?;
    let kept = subsequence(&p, &r).ok_or_else(|| Failure::new("remove_duplicate_rows: result is not a subsequence of the input rows"))?;
    // remove_duplicate_rows compares *normalised* rows with approx::relative_eq (documented mechanism): a row
    // within a few ulps / 2.2e-16 of a kept row after normalisation is a duplicate by that definition even if
    // the exact sets differ (e.g. the zero rows 0 <= 0 and 0 <= -2^-52).  Such drops are accepted and counted;
    // anything farther apart (1e-9 is five orders of magnitude away) is judged by exact set inclusion.
    if let Err(f) = same_set("remove_duplicate_rows", &pq, &kept, n) {
        let norm_row = |i: usize| -> Vec<f64> {
            let a: Vec<f64> = pa.mat.rows[i].clone();
            let nrm = a.iter().map(|x| x * x).sum::<f64>().sqrt();
            let d = if nrm > f64::EPSILON { nrm } else { 1.0 };
            a.iter().map(|x| x / d).chain(std::iter::once(pa.bias[i] / d)).collect()
        };
        let close = |x: &[f64], y: &[f64]| x.iter().zip(y).all(|(a, b)| (a - b).abs() <= 8.0 * f64::EPSILON * 1f64.max(a.abs()).max(b.abs()));
        let all_dropped_are_rounding_duplicates = (0..m).filter(|i| !kept.contains(i)).all(|i| {
            lp::implies(&kept.iter().map(|k| rows[*k].clone()).collect::<Vec<_>>(), n, &rows[i].a, &rows[i].b) || kept.iter().any(|k| close(&norm_row(i), &norm_row(*k)))
        });
        if !all_dropped_are_rounding_duplicates {
            return Err(f);
        }
        ctx.class("dup_dropped_within_rounding_of_a_kept_row");
    }
    // effectiveness, as far as the doc sentence "Removes all duplicate rows" goes: no two kept rows
    // may be bitwise identical.  (Positive multiples are NOT demanded: their normalised forms can
    // differ by a few ulps and the property makes no effectiveness claim for this function.)
    let pb = bits(&p);
    for (x, &i) in kept.iter().enumerate() {
        for &j in &kept[..x] {
            if pb[i] == pb[j] {
                return Err(Failure::new(format!("remove_duplicate_rows kept rows {j} and {i} which are identical")));
            }
            if !rows[i].is_zero_row() && positive_multiple(&rows[i], &rows[j]) {
                ctx.class("dup_scaled_kept_by_rounding");
            }
        }
    }
    dropped_any |= kept.len() < m;

    // normalize
    let r = must("normalize", || p.clone().normalize())?;
    chk!(r.n_constraints() == m && r.indim() == n, "normalize changed the shape");
    for i in 0..m {
        let n2 = qdot(&rows[i].a, &rows[i].a).to_f64();
        let norm = n2.sqrt();
        for j in 0..n {
            let e = if norm > f64::EPSILON { pa.mat.rows[i][j] / norm } else { pa.mat.rows[i][j] };
            chk!((r.mat[[i, j]] - e).abs() <= 1e-12 * (1.0 + e.abs()), "normalize: row {i} col {j} is {} expected {e}", r.mat[[i, j]]);
        }
        let e = if norm > f64::EPSILON { pa.bias[i] / norm } else { pa.bias[i] };
        chk!((r.bias[i] - e).abs() <= 1e-12 * (1.0 + e.abs()), "normalize: bias {i} is {} expected {e} (row must be scaled by one positive factor)", r.bias[i]);
    }

    // remove_rows
    let rm: Vec<usize> = (0..m).filter(|i| c.rm.get(*i).copied().unwrap_or(false)).collect();
    let r = must("remove_rows", || p.remove_rows(rm.clone()))?;
    let kept = subsequence(&p, &r).ok_or_else(|| Failure::new("remove_rows: result is not a subsequence of the input rows"))?;
    let exp: Vec<usize> = (0..m).filter(|i| !rm.contains(i)).collect();
    chk!(r.n_constraints() == exp.len(), "remove_rows({rm:?}) left {} rows, expected {}", r.n_constraints(), exp.len());
    // with duplicate rows a subsequence match is not unique; compare contents
    let eb: Vec<_> = { let b = bits(&p); exp.iter().map(|i| b[*i].clone()).collect() };
    chk!(bits(&r) == eb, "remove_rows({rm:?}) did not return exactly the complement rows in order");
    let _ = kept;

    // remove_redundant_row_constraints
    if c.p.rows.iter().any(|r| matches!(r, RowSpec::NearParallel { .. })) {
        // rows that differ by a relative 2^-20 .. 2^-44 are below the resolving power of an LP solver with
        // tolerance 1e-8 (vertices of such wedges lie at |x| ~ 2^20 .. 2^44, rays are "almost" recession
        // directions): the LP-based clean-up is still run (no panic, subsequence), but not judged for set
        // equality or effectiveness.  The LP-free functions above were judged exactly.
        ctx.class("near_parallel_lp_part_not_judged");
        let r = must("remove_redundant_row_constraints", || p.remove_redundant_row_constraints())?;
        if let Ok(r) = r {
            if !is_canonical_empty(&r) {
                subsequence(&p, &r).ok_or_else(|| Failure::new("remove_redundant_row_constraints: result is not a subsequence of the input rows"))?;
            }
        }
        ctx.set_nontrivial(dropped_any && kept_any && n >= 1 && m >= 2);
        return Ok(());
    }
    let r = must("remove_redundant_row_constraints", || p.remove_redundant_row_constraints())?;
    let r = r.map_err(|e| Failure::new(format!("remove_redundant_row_constraints returned Err({e}) with the default backend")))?;
    if is_canonical_empty(&r) && subsequence(&p, &r).is_none() {
        if exact_nonempty {
            let thin = !lp::has_ball(&rows, n, &Q::from_f64(1e-6));
            ctx.class_if(thin, "declared_empty_thin");
            return Err(Failure::new(format!(
                "remove_redundant_row_constraints replaced a non-empty system by the canonical empty polytope (exactly non-empty; thinner than 1e-6: {thin})"
            )));
        }
        ctx.class("redundant_empty");
    } else {
        let kept = subsequence(&p, &r).ok_or_else(|| Failure::new("remove_redundant_row_constraints: result is not a subsequence of the input rows"))?;
        same_set("remove_redundant_row_constraints", &pq, &kept, n)?;
        dropped_any |= kept.len() < m;
        kept_any |= !kept.is_empty();
        // no remaining row implied by the others by a margin
        let res: Vec<Row> = kept.iter().map(|i| rows[*i].clone()).collect();
        for (pos, &i) in kept.iter().enumerate() {
            let others: Vec<Row> = res.iter().enumerate().filter(|(k, _)| *k != pos).map(|(_, r)| r.clone()).collect();
            let margin = Q::from_f64(1e-6 * (1.0 + rows[i].b.to_f64().abs()));
            match lp::maximize(&others, n, &rows[i].a) {
                Opt::Val(v, _) if v <= &rows[i].b - &margin => {
                    // F10 signature: the optimal face of that LP is unbounded (recession direction
                    // orthogonal to the row) - the solver then reports Unbounded (F9)
                    if optimal_face_unbounded(&others, n, &rows[i].a) && ctx.known(SIG_F10) {
                        continue;
                    }
                    return Err(Failure::with(
                        format!(
                            "remove_redundant_row_constraints kept row {i} ({:?} <= {}) although the other kept rows imply it with margin (max = {v})",
                            rows[i].a, rows[i].b
                        ),
                        json!({"kept": kept, "signature_if_unbounded_face": SIG_F10, "optimal_face_unbounded": optimal_face_unbounded(&others, n, &rows[i].a)}),
                    ));
                }
                Opt::Empty => {
                    // the rest is infeasible: the library should have returned the empty polytope
                    // (demanded only when the rest is infeasible by a margin: a zero row 0 <= -2^-27, or
                    // rows that miss each other by less than the solver tolerance, imply nothing "by a margin")
                    let by_margin = lp::infeasible_by_margin(&others, n, &Q::from_f64(1e-6));
                    ctx.class_if(!by_margin, "rest_infeasible_within_tolerance");
                    if !exact_nonempty && by_margin {
                        // infeasible input: allowed representation is the canonical empty polytope
                        return Err(Failure::new("remove_redundant_row_constraints returned a non-canonical result for an infeasible system whose sub-system is infeasible"));
                    }
                }
                _ => {}
            }
        }
        if !exact_nonempty {
            // an infeasible system "may be" replaced: keeping an equivalent (empty) system is fine
            ctx.class("infeasible_kept_as_rows");
        }
    }
    ctx.set_nontrivial(dropped_any && kept_any && n >= 1 && m >= 2);
    Ok(())
}

fn positive_multiple(a: &Row, b: &Row) -> bool {
    // a = k b with k > 0 (including bias)
    let mut k: Option<Q> = None;
    for (x, y) in a.a.iter().zip(&b.a).chain(std::iter::once((&a.b, &b.b))) {
        if x.is_zero() != y.is_zero() {
            return false;
        }
        if x.is_zero() {
            continue;
        }
        let r = x / y;
        match &k {
            None => k = Some(r),
            Some(k0) => {
                if *k0 != r {
                    return false;
                }
            }
        }
    }
    matches!(k, Some(k) if k.is_pos())
}

/// Exists d != 0 with A d <= 0 and c.d = 0 ?  (recession direction along which the objective is
/// constant: the optimal face of max c.x is then unbounded whenever the optimum is finite.)
pub fn optimal_face_unbounded(rows: &[Row], n: usize, c: &[Q]) -> bool {
    // search a ray with some coordinate +1 or -1: 2n small LPs (feasibility)
    for j in 0..n {
        for s in [1i64, -1] {
            let mut sys: Vec<Row> = rows.iter().filter(|r| !r.is_zero_row()).map(|r| Row::le(r.a.clone(), Q::zero())).collect();
            sys.push(Row::le(c.to_vec(), Q::zero()));
            sys.push(Row::le(c.iter().map(|x| -x).collect(), Q::zero()));
            let mut e = vec![Q::zero(); n];
            e[j] = Q::int(s);
            sys.push(Row::le(e.clone(), Q::int(1)));
            sys.push(Row::le(e.iter().map(|x| -x).collect(), Q::int(-1)));
            if lp::feasible_closed(&sys, n).is_some() {
                return true;
            }
        }
    }
    false
}

pub struct C15;

impl Property for C15 {
    type Case = Case;
    fn id(&self) -> &'static str {
        "C15"
    }
    fn rule(&self) -> String {
        "constraint systems of dims 1..4 (thorough 1..5) with 1..10 (14) rows from the row classes duplicate / positive multiple / negative multiple / parallel-other-bias / zero row (+,0,-) / equality pair / axis bound / through-anchor / random / almost parallel (one coefficient times 1+2^-20..2^-44; on such systems only the LP-free functions are judged), rows optionally scaled by 2^e, |e| <= 110; each clean-up function's result must be a bitwise subsequence of the input (normalize: row-wise positive scaling; canonical empty/unbounded representations as documented) and set equality is decided by certified exact LP (every dropped row implied by the kept ones); remove_redundant_row_constraints must leave no row implied with margin 1e-6. Non-trivial = some function dropped a row and kept a row, >= 2 rows; distinct = distinct serialised cases".into()
    }
    fn assumptions(&self) -> Vec<String> {
        vec![
            "the canonical one-row unbounded(dim) returned when every row is a tautology is accepted as the representation of the zero-row system (pinned by test_remove_tautologies_all_zero)".into(),
            "remove_rows is checked for its mechanical contract (exact complement subsequence); it cannot preserve the set for arbitrary rows".into(),
            "normalize: 1e-12 relative tolerance on the scaled coefficients (floating square root)".into(),
            "known finding C15/redundant_row_kept_via_unbounded_face (root cause in minilp, see C10) is excluded only when the exact oracle certifies an unbounded optimal face".into(),
        ]
    }
    fn cases(&self, tier: Tier) -> usize {
        tier.pick(60000, 1_500_000)
    }
    fn strategy(&self, tier: Tier) -> BoxedStrategy<Case> {
        let (maxdim, maxrows) = tier.pick((4usize, 10usize), (5, 14));
        sized(maxdim, maxdim + 2)
            .prop_flat_map(move |n| (prop_oneof![11 => poly_spec_np(n, 0, maxrows, true), 1 => poly_spec_np(n, maxrows, 2 * maxrows + 4, true)], proptest::collection::vec(prop::bool::weighted(0.3), maxrows * 4 + 8)))
            .prop_map(|(p, rm)| Case { p, rm })
            .boxed()
    }
    fn run(&self, case: &Case, ctx: &mut Ctx) -> CaseResult {
        run_case(case, ctx)
    }
}

#[allow(dead_code)]
fn _unused(_: &Polytope) -> AffQ {
    aff_to_q(&affinitree::linalg::affine::AffFunc::identity(1))
}
