//! C05 — cached feasibility verdicts and witnesses stay sound across histories; mirror_points.

use crate::exact::Q;
use crate::gen::*;
use crate::gen_tree::aff_rows;
use crate::hist::*;
use crate::histcheck::*;
use crate::runner::*;
use affinitree::pwl::afftree::AffTree;
use ndarray::Array2;
use proptest::prelude::*;
use serde::{Deserialize, Serialize};

#[derive(Clone, Debug, Serialize, Deserialize)]
pub enum Case {
    Hist(History),
    /// the same history with slightly inaccurate LP answers (fault hook): every `every`-th LP call returns its
    /// optimal point moved outside one row by 10^-(4+exp%4) raw distance, which is what sends the library
    /// through its witness-repair branch (mirror_points) before anything is cached
    HistPerturbed { h: History, every: u8, exp: u8 },
    Mirror { p: PolySpec, starts: Vec<PointSpec>, iters: u8 },
}

pub struct C05;

fn run_hist_perturbed(h: &History, every: u8, exp: u8, ctx: &mut Ctx) -> CaseResult {
    use affinitree::linalg::polyhedron::verif_hook as hook;
    let every = 1 + (every % 4) as usize;
    let eps = 10f64.powi(-(4 + (exp as i32 % 4)));
    let mut plan = std::collections::BTreeMap::new();
    for i in (0..4000usize).step_by(every) {
        plan.insert(i, hook::Fault::Perturb { row: i / every, eps });
    }
    hook::reset();
    hook::set_plan(plan);
    ctx.class("history_with_perturbed_lp_answers");
    let r = run_hist(h, ctx);
    let log = hook::take_log();
    hook::reset();
    ctx.count("perturbed_lp_answers", log.iter().filter(|r| r.fault.is_some() && r.changed).count() as u64);
    r
}

fn run_hist(h: &History, ctx: &mut Ctx) -> CaseResult {
    let mut st = init(h)?;
    ctx.class_if(h.shift > 0, "data_far_from_origin");
    let mut total = CacheStats::default();
    let mut structural_after_witness = 0;
    let mut had_witness = false;
    for (i, op) in h.ops.iter().enumerate() {
        let info = step(&mut st, op).map_err(|f| Failure::with(format!("step {i}: {}", f.msg), f.detail))?;
        if info.skipped {
            continue;
        }
        let after = format!("step {i} ({})", info.desc);
        if st.t.len() > 200 {
            break;
        }
        let cs = check_caches(&st.t, &after)?;
        if had_witness && info.structural {
            structural_after_witness += 1;
        }
        had_witness |= cs.witnesses > 0;
        total.witnesses += cs.witnesses;
        total.witness_on_decision += cs.witness_on_decision;
        total.infeasible_marks += cs.infeasible_marks;
        total.feasible_marks += cs.feasible_marks;
    }
    // remove_axes on a tree that carries caches (any axes, not only sliced ones: the documentation allows it and
    // says the function changes; whatever caches remain must be sound for the tree as it is afterwards)
    let n = st.in_dim;
    let keep: Vec<bool> = (0..n).map(|j| (h.out0 >> j) & 1 == 1).collect();
    if n >= 2 && keep.iter().any(|k| *k) && keep.iter().any(|k| !*k) && st.t.len() <= 200 {
        ctx.class("remove_axes_after_history");
        let had = st.t.tree.node_iter().filter(|(_, nd)| !nd.value.state.is_indetermined()).count();
        ctx.class_if(had > 0, "remove_axes_with_cached_states");
        let mask = ndarray::Array1::from_iter(keep.iter().copied());
        must("remove_axes", || st.t.remove_axes(&mask))?.map_err(|e| Failure::new(format!("remove_axes rejected a mask of the right length: {e}")))?;
        let cs = check_caches(&st.t, "remove_axes after the history")?;
        total.witnesses += cs.witnesses;
        must("infeasible_elimination after remove_axes", || st.t.infeasible_elimination())?;
        let cs = check_caches(&st.t, "infeasible_elimination after remove_axes")?;
        total.witnesses += cs.witnesses;
    }
    ctx.count("witness_checks", total.witnesses);
    ctx.count("witness_on_decision", total.witness_on_decision);
    ctx.count("infeasible_marks_checked", total.infeasible_marks);
    ctx.class("history");
    ctx.set_nontrivial(total.witness_on_decision >= 1 && structural_after_witness >= 1);
    Ok(())
}

fn run_mirror(p: &PolySpec, starts: &[PointSpec], iters: u8, ctx: &mut Ctx) -> CaseResult {
    ctx.class("mirror_points");
    let n = p.dim;
    let (pa, tags) = p.resolve();
    for t in tags {
        ctx.class(t);
    }
    let poly = pa.poly();
    let rows = aff_rows(&pa.q());
    let pts: Vec<Vec<f64>> = starts.iter().map(|s| s.resolve(&p.anchors, n)).collect();
    let mut arr2 = Array2::<f64>::zeros((n, pts.len()));
    for (j, pt) in pts.iter().enumerate() {
        for i in 0..n {
            arr2[[i, j]] = pt[i];
        }
    }
    let n_iter = (iters % 24) as usize;
    let res = must("mirror_points", || AffTree::<2>::mirror_points(&poly, &arr2, n_iter))?;
    match res {
        None => {
            ctx.class("mirror_none");
        }
        Some((sol, count)) => {
            ctx.class("mirror_some");
            ctx.class_if(count > 0, "mirror_moved");
            if count >= n_iter {
                return Err(Failure::new(format!("mirror_points reports {count} iterations with a limit of {n_iter}")));
            }
            if sol.shape()[0] != n || sol.shape()[1] == 0 || sol.shape()[1] > pts.len() {
                return Err(Failure::new(format!("mirror_points returned an array of shape {:?} for {} start points in dimension {n}", sol.shape(), pts.len())));
            }
            for col in sol.axis_iter(ndarray::Axis(1)) {
                let w: Vec<f64> = col.to_vec();
                if w.iter().any(|v| !v.is_finite()) {
                    return Err(Failure::new(format!("mirror_points returned a non-finite point {w:?}")));
                }
                let wq: Vec<Q> = w.iter().map(|v| Q::from_f64(*v)).collect();
                let winf = wq.iter().map(|v| v.abs()).max().unwrap_or(Q::zero());
                for (ri, r) in rows.iter().enumerate() {
                    let tol = &Q::from_f64(1e-8) + &(&Q::from_f64(1e-12) * &(&Q::one() + &(&r.b.abs() + &(&crate::exact::norm1(&r.a) * &winf))));
                    if r.slack(&wq) < -&tol {
                        return Err(Failure::new(format!(
                            "mirror_points returned {w:?}, which violates row {ri} ({:?} <= {}) of the polytope it was asked for by {}",
                            r.a,
                            r.b,
                            (-r.slack(&wq)).to_f64()
                        )));
                    }
                }
            }
        }
    }
    ctx.set_nontrivial(rows.len() >= 2 && n >= 2);
    Ok(())
}

impl Property for C05 {
    type Case = Case;
    fn id(&self) -> &'static str {
        "C05"
    }
    fn rule(&self) -> String {
        "(a) operation histories as in C04 (compose pruned/unpruned, apply_func, arithmetic, reduce, repeated elimination, forwarding): after every step, every stored witness of every node is converted exactly and tested against the node's exact path polytope rebuilt from raw parent links (tolerance 1e-8 + float rounding), and every node marked Infeasible must have a region without a ball of radius 1e-6; a third of the histories run with perturbed LP answers (fault hook), and a third end with remove_axes on an arbitrary mask followed by an elimination, caches audited after each; (b) direct calls of mirror_points on generated polytopes (zero rows, thin, empty, unbounded) and start points: returned columns must lie in the polytope within the same tolerance, iteration count < limit. Non-trivial = (a) a witness was checked on a node that has since become a decision and a structural op followed a witness, (b) >= 2 rows in dim >= 2; distinct = distinct serialised cases".into()
    }
    fn assumptions(&self) -> Vec<String> {
        vec!["containment tolerance 1e-8 on the raw distance (documented for contains()) plus 1e-12 relative for the rounding of a.w".into(), "a plain Feasible mark carries no obligation (it can only cause less pruning)".into()]
    }
    fn cases(&self, tier: Tier) -> usize {
        tier.pick(60000, 1_000_000)
    }
    fn strategy(&self, tier: Tier) -> BoxedStrategy<Case> {
        let w = OpWeights { apply: 2, compose_unpruned: 4, compose_pruned: 4, eliminate: 6, reduce: 3, arith_tree: 3, arith_aff: 1 };
        let mirror = (1usize..=4)
            .prop_flat_map(|n| (poly_spec(n, 1, 6), proptest::collection::vec(point_spec(n), 1..5), any::<u8>()))
            .prop_map(|(p, starts, iters)| Case::Mirror { p, starts, iters });
        let pert = (history(w, tier.pick(8, 14)), any::<u8>(), any::<u8>()).prop_map(|(h, every, exp)| Case::HistPerturbed { h, every, exp });
        prop_oneof![2 => history(w, tier.pick(8, 14)).prop_map(Case::Hist), 1 => pert, 4 => mirror].boxed()
    }
    fn run(&self, case: &Case, ctx: &mut Ctx) -> CaseResult {
        match case {
            Case::Hist(h) => {
                #[allow(unused_imports)]
                use affinitree::linalg::polyhedron::verif_hook as hook;
                hook::reset();
                run_hist(h, ctx)
            }
            Case::HistPerturbed { h, every, exp } => run_hist_perturbed(h, *every, *exp, ctx),
            Case::Mirror { p, starts, iters } => run_mirror(p, starts, *iters, ctx),
        }
    }
}
