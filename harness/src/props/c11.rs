//! C11 — pruning is fail-safe when the LP solver misbehaves (fault enumeration through the
//! cfg(affinitree_verif) hook at Polytope::solve_linprog).

use crate::hist::*;
use crate::histcheck::*;
use crate::pwl;
use crate::runner::*;
use affinitree::linalg::polyhedron::verif_hook as hook;
use affinitree::linalg::polyhedron::verif_hook::Fault;
use proptest::prelude::*;
use serde::{Deserialize, Serialize};
use std::collections::{BTreeMap, BTreeSet};

#[derive(Clone, Debug, Serialize, Deserialize)]
pub enum FK {
    Error,
    Unbounded,
    Perturb { row: u8, exp: u8 },
    FarOff,
}

impl FK {
    fn fault(&self) -> Fault {
        match self {
            FK::Error => Fault::Error("injected".into()),
            FK::Unbounded => Fault::Unbounded,
            FK::Perturb { row, exp } => Fault::Perturb { row: *row as usize, eps: 10f64.powi(-(3 + (*exp as i32 % 4))) },
            FK::FarOff => Fault::FarOff { scale: 1e3 },
        }
    }
}

#[derive(Clone, Debug, Serialize, Deserialize)]
pub struct Case {
    pub base: History,
    pub op: HOp,
    pub multi: Vec<Vec<(u16, FK)>>,
    pub sample: Vec<(u16, FK)>,
}

pub struct C11;

fn clone_state(st: &HState) -> HState {
    HState { t: st.t.clone(), r: st.r.clone(), in_dim: st.in_dim, out_dim: st.out_dim, anchors: st.anchors.clone(), shift: st.shift, total_operands_only: st.total_operands_only, tracking: st.tracking }
}

fn dump_key(st: &HState) -> u64 {
    use std::hash::{Hash, Hasher};
    let mut h = std::collections::hash_map::DefaultHasher::new();
    for nd in pwl::dump(&st.t) {
        nd.idx.hash(&mut h);
        nd.parent.hash(&mut h);
        nd.children.hash(&mut h);
        nd.isleaf.hash(&mut h);
        nd.shape.hash(&mut h);
        nd.mat.hash(&mut h);
        nd.bias.hash(&mut h);
    }
    h.finish()
}

pub fn run_case(c: &Case, ctx: &mut Ctx) -> CaseResult {
    hook::reset();
    let mut st0 = init(&c.base)?;
    ctx.class_if(c.base.shift > 0, "data_far_from_origin");
    for op in &c.base.ops {
        let info = step(&mut st0, op)?;
        let _ = info;
        if !st0.tracking || st0.t.len() > 48 {
            ctx.class("base_too_large_skipped");
            return Ok(());
        }
    }
    let inputs = inputs_of(&c.base, &st0);
    let is_elim = matches!(c.op, HOp::Eliminate);
    // fault-free run
    hook::set_plan(BTreeMap::new());
    let mut free = clone_state(&st0);
    let info = step(&mut free, &c.op).map_err(|f| Failure::with(format!("fault-free run: {}", f.msg), f.detail))?;
    let n_calls = hook::calls();
    hook::reset();
    if info.skipped || !free.tracking {
        ctx.class("op_skipped");
        return Ok(());
    }
    check_wellformed(&free, "the fault-free run")?;
    check_function(&free, &inputs, true, "the fault-free run")?;
    let survivors_free: BTreeSet<usize> = free.t.tree.node_indices().collect();
    let before: BTreeSet<usize> = st0.t.tree.node_indices().collect();
    let len_free = free.t.len();
    let pruned_free = if is_elim { before.len() - survivors_free.len() } else { 0 };
    ctx.count("lp_calls_fault_free", n_calls as u64);
    if n_calls == 0 {
        ctx.class("no_lp_calls");
        return Ok(());
    }
    // plans
    let mut plans: Vec<BTreeMap<usize, Fault>> = Vec::new();
    let exhaustive = n_calls <= 40;
    if exhaustive {
        for i in 0..n_calls {
            for k in [FK::Error, FK::Unbounded, FK::Perturb { row: i as u8, exp: 2 }, FK::FarOff] {
                plans.push(BTreeMap::from([(i, k.fault())]));
            }
        }
        ctx.count("exhaustive_cases", 1);
    } else {
        for (k, (sel, fk)) in c.sample.iter().cycle().take(160).enumerate() {
            let pos = (pick(*sel, n_calls) + k * 7) % n_calls;
            plans.push(BTreeMap::from([(pos, fk.fault())]));
        }
    }
    for m in &c.multi {
        let mut p = BTreeMap::new();
        for (sel, fk) in m {
            p.insert(pick(*sel, n_calls), fk.fault());
        }
        if p.len() >= 2 {
            plans.push(p);
            ctx.class("multi_fault_plan");
        }
    }
    let mut verified: BTreeSet<u64> = BTreeSet::new();
    verified.insert(dump_key(&free));
    let mut injected_total = 0u64;
    let mut less_pruning_seen = false;
    for plan in &plans {
        let desc = format!("fault plan {:?}", plan);
        hook::set_plan(plan.clone());
        let mut st = clone_state(&st0);
        let res = step(&mut st, &c.op);
        let log = hook::take_log();
        hook::reset();
        res.map_err(|f| Failure::with(format!("under {desc}: {}", f.msg), serde_json::json!({"plan": format!("{plan:?}")})))?;
        let injected = log.iter().filter(|r| r.fault.is_some() && r.changed).count() as u64;
        injected_total += injected;
        ctx.count("plans_executed", 1);
        if injected == 0 {
            ctx.count("plans_without_effect", 1);
        }
        let after = format!("the operation under {desc}");
        check_wellformed(&st, &after)?;
        let key = dump_key(&st);
        if !verified.contains(&key) {
            check_function(&st, &inputs, true, &after)?;
            verified.insert(key);
            ctx.count("distinct_result_trees_judged", 1);
        }
        check_caches(&st.t, &after)?;
        // "The only permitted effect is less pruning": nothing with a reachable region may disappear
        // under a fault.  (A literal superset test against the fault-free survivors would be wrong:
        // when the fault-free run finds a node infeasible that is the last child of its parent, it
        // keeps that node together with its whole dead subtree, whereas a faulted run that loses this
        // verdict descends and legitimately removes dead grandchildren - different, not more harmful,
        // pruning.  Such cases are counted.)
        if is_elim {
            vanish_check(&st0.t, &st.t, &after)?;
            let surv: BTreeSet<usize> = st.t.tree.node_indices().collect();
            if !survivors_free.is_subset(&surv) {
                ctx.count("plans_pruning_inside_dead_subtree", 1);
            }
            if surv.len() > survivors_free.len() {
                less_pruning_seen = true;
            }
        } else if st.t.len() > len_free {
            less_pruning_seen = true;
        }
    }
    ctx.count("faults_injected", injected_total);
    ctx.class_if(less_pruning_seen, "less_pruning_observed");
    ctx.class(match c.op {
        HOp::Eliminate => "op_eliminate",
        HOp::Compose { .. } => "op_compose_pruned",
        _ => "op_tree_arith",
    });
    let pruned_some = if is_elim { pruned_free >= 1 } else { true };
    ctx.set_nontrivial(injected_total >= 1 && pruned_some);
    Ok(())
}

fn fk() -> impl Strategy<Value = FK> {
    prop_oneof![Just(FK::Error), Just(FK::Unbounded), (any::<u8>(), 0u8..4).prop_map(|(row, exp)| FK::Perturb { row, exp }), Just(FK::FarOff)]
}

impl Property for C11 {
    type Case = Case;
    fn id(&self) -> &'static str {
        "C11"
    }
    fn level(&self) -> &'static str {
        "fault_enumeration"
    }
    fn rule(&self) -> String {
        "trees produced by short generated histories (fresh and cached feasibility states, total and partial, contradicting predicates) x operation in {infeasible_elimination, compose<true>(schema or tree), tree +- tree} x fault plans injected at Polytope::solve_linprog through the cfg(affinitree_verif) hook: when the fault-free run makes N <= 40 LP calls EVERY single position x kind in {Error, Unbounded, perturbed witness (violates one row by 1e-5), far-off witness} is executed (exhaustive for that case), otherwise 160 sampled single faults; plus generated multi-fault plans (2-5 positions, mixed kinds). Per plan: no panic, well-formed, function equal to the unpruned reference (all full-dimensional cells + boundary inputs under the thin rule), sound caches (C05 oracle), and every node that vanished under the plan is audited for soundness (its region contains no ball of radius 1e-6: 'the only permitted effect is less pruning' is judged per removal, not by comparing survivor sets). Non-trivial = at least one injected fault changed the answer the library saw and (for elimination) the fault-free run pruned a node; distinct = distinct serialised cases; 1 history in 25 has its input-space data translated by 2^20..2^30 (data far from the origin)".into()
    }
    fn assumptions(&self) -> Vec<String> {
        vec![
            "fault kinds are those named by the property; a backend that wrongly reports Infeasible cannot be survived by any pruning algorithm and is outside the statement".into(),
            "the hook replaces the answer of the real solver at the chosen call index of the current thread; everything else runs unmodified".into(),
        ]
    }
    fn cases(&self, tier: Tier) -> usize {
        tier.pick(5000, 60_000)
    }
    fn strategy(&self, tier: Tier) -> BoxedStrategy<Case> {
        let _ = tier;
        let w = OpWeights { apply: 2, compose_unpruned: 6, compose_pruned: 2, eliminate: 2, reduce: 1, arith_tree: 1, arith_aff: 0 };
        let op = prop_oneof![
            5 => Just(HOp::Eliminate),
            2 => (gspec(), any::<u8>()).prop_map(|(g, out)| HOp::Compose { prune: true, g, out }),
            1 => hop(OpWeights { apply: 0, compose_unpruned: 0, compose_pruned: 0, eliminate: 0, reduce: 0, arith_tree: 1, arith_aff: 0 }),
        ];
        (
            history(w, 3),
            op,
            proptest::collection::vec(proptest::collection::vec((any::<u16>(), fk()), 2..=5), 0..6),
            proptest::collection::vec((any::<u16>(), fk()), 1..8),
        )
            .prop_map(|(base, op, multi, sample)| Case { base, op, multi, sample })
            .boxed()
    }
    fn run(&self, case: &Case, ctx: &mut Ctx) -> CaseResult {
        let r = run_case(case, ctx);
        hook::reset();
        r
    }
}
