//! C08 — reduce preserves the function and only merges identical siblings.

use crate::exact::{AffQ, Q};
use crate::gen::*;
use crate::gen_tree::*;
use crate::pwl::{self, aff_to_q, compare_tree, EquivMode};
use crate::runner::*;
use affinitree::pwl::afftree::AffTree;
use proptest::prelude::*;
use serde::{Deserialize, Serialize};
use std::collections::BTreeMap;

#[derive(Clone, Debug, Serialize, Deserialize)]
pub struct Case {
    pub t: TreeSpec,
    pub points: Vec<PointSpec>,
}

#[derive(Clone, Debug, PartialEq, Eq)]
struct RNodeM {
    parent: Option<usize>,
    children: [Option<usize>; 2],
    value: AffQ,
}

fn snapshot(t: &AffTree<2>) -> BTreeMap<usize, RNodeM> {
    t.tree
        .node_iter()
        .map(|(i, n)| (i, RNodeM { parent: n.parent, children: [n.children[0], n.children[1]], value: aff_to_q(&n.value.aff) }))
        .collect()
}

/// reference reduce: repeatedly replace a non-root decision whose two children are equal leaves by
/// its label-0 child (which keeps its index); returns (merges, cascaded)
fn reduce_model(m: &mut BTreeMap<usize, RNodeM>, root: usize) -> (usize, bool) {
    let mut merges = 0;
    let mut cascaded = false;
    let mut touched: Vec<usize> = Vec::new();
    loop {
        let mut hit = None;
        for (&i, n) in m.iter() {
            if i == root {
                continue;
            }
            if let (Some(l), Some(r)) = (n.children[0], n.children[1]) {
                let (ln, rn) = (&m[&l], &m[&r]);
                let leaf = |x: &RNodeM| x.children.iter().all(|c| c.is_none());
                if leaf(ln) && leaf(rn) && ln.value == rn.value {
                    hit = Some((i, l, r));
                    break;
                }
            }
        }
        let (d, l, r) = match hit {
            Some(h) => h,
            None => break,
        };
        merges += 1;
        let gp = m[&d].parent.unwrap();
        if touched.contains(&gp) || touched.contains(&d) {
            cascaded = true;
        }
        let gl = m[&gp].children.iter().position(|c| *c == Some(d)).unwrap();
        m.remove(&r);
        m.remove(&d);
        m.get_mut(&gp).unwrap().children[gl] = Some(l);
        m.get_mut(&l).unwrap().parent = Some(gp);
        touched.push(gp);
        touched.push(l);
    }
    (merges, cascaded)
}

pub fn run_case(c: &Case, ctx: &mut Ctx) -> CaseResult {
    let n = c.t.in_dim;
    let tr = c.t.resolve(&[]);
    let tref = tr.to_ref();
    let tree = tr.build::<2>(&c.t.order, &c.t.junk);
    ctx.class_if(!tr.is_total(), "partial");
    ctx.count("nodes", tr.count() as u64);
    ctx.class(&format!("depth{}", tr.depth()));
    ctx.class_if(tree.tree.node_indices().enumerate().any(|(i, idx)| i != idx), "index_holes");
    let anchors = c.t.all_anchors(&[]);
    let inputs: Vec<Vec<Q>> = c.points.iter().map(|p| qv(&p.resolve(&anchors, n))).collect();

    let mut model = snapshot(&tree);
    let root = tree.tree.get_root_idx();
    // near-equal sibling pairs that must be kept
    let near_pairs = model
        .values()
        .filter(|nd| {
            if let (Some(l), Some(r)) = (nd.children[0], nd.children[1]) {
                let (a, b) = (&model[&l], &model[&r]);
                let leaf = |x: &RNodeM| x.children.iter().all(|c| c.is_none());
                leaf(a) && leaf(b) && a.value != b.value && (a.value.mat == b.value.mat || a.value.bias == b.value.bias)
            } else {
                false
            }
        })
        .count();
    let (merges, cascaded) = reduce_model(&mut model, root);

    let before_len = tree.len();
    let mut red = tree.clone();
    must("reduce", || red.reduce())?;
    if red.len() > before_len {
        return Err(Failure::new(format!("reduce increased the number of nodes from {before_len} to {}", red.len())));
    }
    // (a) function preserved, no exemption
    let out = compare_tree("reduce()", &red, &tref, &inputs, &EquivMode::exact()).map_err(|(m, d)| Failure::with(m, d))?;
    // (e) agreement with the reference reduce model up to renaming of indices: same shape, same
    // predicates and terminal functions at the same label paths ("only merges identical siblings" and
    // "decisions whose children differ are kept" fix the result up to which sibling's index survives)
    let got = snapshot(&red);
    fn canon(m: &BTreeMap<usize, RNodeM>, i: usize) -> String {
        let n = &m[&i];
        let kids: Vec<String> = n.children.iter().map(|c| c.map(|c| canon(m, c)).unwrap_or_else(|| "-".into())).collect();
        format!("({:?}|{:?}|{})", n.value.mat, n.value.bias, kids.join(","))
    }
    if got.len() != model.len() || canon(&got, root) != canon(&model, root) {
        return Err(Failure::new(format!(
            "reduce(): resulting tree ({} nodes) differs from the reference reduction ({} nodes, {} merges expected): identical siblings left unmerged, or differing siblings merged",
            got.len(),
            model.len(),
            merges
        )));
    }
    // (d) no non-root decision with two equal terminal children
    for (i, nd) in &got {
        if *i == root {
            continue;
        }
        if let (Some(l), Some(r)) = (nd.children[0], nd.children[1]) {
            let leaf = |x: &RNodeM| x.children.iter().all(|c| c.is_none());
            if leaf(&got[&l]) && leaf(&got[&r]) && got[&l].value == got[&r].value {
                return Err(Failure::new(format!("after reduce decision {i} still has two identical terminal children")));
            }
        }
    }
    // (c) idempotent
    let d1 = pwl::dump(&red);
    let mut red2 = red.clone();
    must("reduce (second run)", || red2.reduce())?;
    if pwl::dump(&red2) != d1 {
        return Err(Failure::new("a second reduce() changed the tree again"));
    }
    ctx.count("merges", merges as u64);
    ctx.count("near_pairs_kept", near_pairs as u64);
    ctx.count("inputs_on_boundary", out.on_boundary as u64);
    ctx.class_if(cascaded, "cascade");
    ctx.class_if(merges >= 1, "merged");
    ctx.set_nontrivial(merges >= 1 && near_pairs >= 1);
    Ok(())
}

pub struct C08;

impl Property for C08 {
    type Case = Case;
    fn id(&self) -> &'static str {
        "C08"
    }
    fn rule(&self) -> String {
        "binary trees (dims 1..3, depth <= 4 quick / 5 thorough) whose terminals come from a pool of 2-3 maps plus near-copies (one bias or one coefficient changed), total and partial, arena layouts with holes; reduce() result compared with (a) the original function on all full-dimensional cells and exact boundary inputs, (b) node count, (c) idempotence, (d) no identical terminal siblings below the root, (e) an index-exact reference reduction. Non-trivial = at least one merge AND at least one near-equal sibling pair that must be kept; distinct = distinct serialised cases".into()
    }
    fn assumptions(&self) -> Vec<String> {
        vec!["equality of terminals is coefficient equality (AffFuncBase PartialEq)".into()]
    }
    fn cases(&self, tier: Tier) -> usize {
        tier.pick(40000, 600_000)
    }
    fn strategy(&self, tier: Tier) -> BoxedStrategy<Case> {
        let maxd = tier.pick(4u32, 5u32);
        (sized_wide(3, 5), sized(2, 3))
            .prop_flat_map(move |(n, p)| {
                let maxd = if n >= 8 { 3 } else { maxd };
                let params = (1..=maxd, prop_oneof![2 => Just(100u32), 1 => Just(85u32)]).prop_map(move |(d, present_pct)| TreeParams {
                    k: 2,
                    in_dim: n,
                    out_dim: p,
                    max_depth: d,
                    present_pct,
                    pool_pct: 85,
                });
                (params.prop_flat_map(tree_spec), proptest::collection::vec(point_spec(n), 6..12))
            })
            .prop_map(|(mut t, points)| {
                t.pool.truncate(2.max(t.pool.len().min(3)));
                Case { t, points }
            })
            .boxed()
    }
    fn run(&self, case: &Case, ctx: &mut Ctx) -> CaseResult {
        run_case(case, ctx)
    }
}
