pub mod c12;
pub mod c13;
pub mod c16;
pub mod c14;
pub mod c15;
pub mod c10;
