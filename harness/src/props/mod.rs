pub mod c12;
pub mod c13;
