//! C06 — infeasible-path elimination is effective and idempotent (total trees).

use crate::hist::*;
use crate::histcheck::*;
use crate::lp;
use crate::pwl::{self, closed, Ref};
use crate::runner::*;
use crate::schema::*;
use proptest::prelude::*;

pub struct C06;

fn total_ops() -> BoxedStrategy<HOp> {
    // only operations that keep a total tree total
    let total_tree = crate::gen_tree::tree_spec(crate::gen_tree::TreeParams { k: 2, in_dim: MAXD, out_dim: MAXD, max_depth: 2, present_pct: 100, pool_pct: 30 });
    let g = prop_oneof![3 => activation_spec().prop_map(GSpec::Schema), 1 => head_spec().prop_map(GSpec::Schema), 2 => total_tree.prop_map(GSpec::Tree)];
    prop_oneof![
        3 => (crate::gen::aff(MAXD, MAXD), any::<u8>()).prop_map(|(a, out)| HOp::ApplyFunc { a, out }),
        5 => (g.clone(), any::<u8>()).prop_map(|(g, out)| HOp::Compose { prune: false, g, out }),
        2 => (g, any::<u8>()).prop_map(|(g, out)| HOp::Compose { prune: true, g, out }),
        3 => Just(HOp::Eliminate),
    ]
    .boxed()
}

fn history_has_scaled_rows(h: &History) -> bool {
    fn node(n: &crate::gen_tree::TNode) -> bool {
        match n {
            crate::gen_tree::TNode::Leaf(_) => false,
            crate::gen_tree::TNode::Dec { rows, kids } => rows.iter().any(|r| r.scale != 0) || kids.iter().flatten().any(node),
        }
    }
    let tree = |t: &crate::gen_tree::TreeSpec| t.leaf_scale != 0 || node(&t.root);
    (match &h.ctor {
        Ctor::Tree(t) => tree(t),
        Ctor::FromPoly { p, .. } => p.scales.iter().any(|s| *s != 0),
        _ => false,
    }) || h.ops.iter().any(|op| match op {
        HOp::Compose { g: GSpec::Tree(t), .. } => tree(t),
        HOp::Add { b, .. } | HOp::Sub { b, .. } => tree(b),
        _ => false,
    })
}

pub fn make_total_pub(h: &mut History) {
    make_total(h)
}

fn make_total(h: &mut History) {
    fn fill(n: &mut crate::gen_tree::TNode) {
        if let crate::gen_tree::TNode::Dec { kids, .. } = n {
            for k in kids.iter_mut() {
                match k {
                    Some(k) => fill(k),
                    None => *k = Some(crate::gen_tree::TNode::Leaf(crate::gen_tree::LeafSpec::Pool(1))),
                }
            }
        }
    }
    match &mut h.ctor {
        Ctor::Tree(t) => {
            fill(&mut t.root);
            t.junk.clear();
        }
        Ctor::FromPoly { ff, ft, .. } => {
            if ff.is_none() {
                *ff = Some(ft.clone());
            }
        }
        _ => {}
    }
    for op in h.ops.iter_mut() {
        if let HOp::Compose { g: GSpec::Tree(t), .. } = op {
            fill(&mut t.root);
            t.junk.clear();
        }
    }
}

pub const SIG_F11: &str = "C06/single_branch_after_rejected_lp_witness";

/// A decision below the root with a single branch violates the property, except for the listed
/// finding: the LP answer for that decision or its remaining child was discarded (the node is still
/// Indeterminate after the run - with the default backend this only happens when the returned vertex
/// fails the raw 1e-8 containment test and the mirror repair does not converge).
fn single_branch(st: &HState, idx: usize, after: &str, ctx: &mut Ctx) -> CaseResult {
    let node = st.t.tree.tree_node(idx).unwrap();
    let child = node.children.iter().flatten().next().copied().unwrap();
    let indet = node.value.state.is_indetermined() || st.t.tree.tree_node(child).unwrap().value.state.is_indetermined();
    if indet && ctx.known(SIG_F11) {
        return Ok(());
    }
    Err(Failure::with(
        format!("after {after}: decision {idx} below the root is left with a single branch (feasibility of the decision or of its remaining child {child} still Indeterminate: {indet})"),
        serde_json::json!({"decision": idx, "child": child, "signature_if_indeterminate": SIG_F11}),
    ))
}

pub fn run_case(h0: &History, ctx: &mut Ctx) -> CaseResult {
    let mut h = h0.clone();
    make_total(&mut h);

    h.ops.push(HOp::Eliminate);
    let mut st = init(&h)?;
    st.total_operands_only = true;
    ctx.class_if(h.shift > 0, "data_far_from_origin");
    // unpruned twin: same operations without any pruning
    let mut twin = init(&h)?;
    twin.total_operands_only = true;
    let mut twin_ok = true;
    let mut removed_any = false;
    let mut forwarded_any = false;
    let mut cached = false;
    let mut ended_with_elimination = false;
    for (i, op) in h.ops.iter().enumerate() {
        if st.t.len() > 300 {
            return Ok(());
        }
        let before = st.t.clone();
        let info = step(&mut st, op).map_err(|f| Failure::with(format!("step {i}: {}", f.msg), f.detail))?;
        if info.skipped {
            continue;
        }
        ended_with_elimination = matches!(op, HOp::Eliminate);
        if twin_ok {
            match op {
                HOp::Eliminate => {}
                HOp::Compose { g, out, .. } => {
                    if twin.t.num_terminals() > 256 {
                        twin_ok = false;
                    } else {
                        let i2 = step(&mut twin, &HOp::Compose { prune: false, g: g.clone(), out: *out })?;
                        if i2.skipped {
                            twin_ok = false;
                        }
                    }
                }
                other => {
                    step(&mut twin, other)?;
                }
            }
        }
        // The root is never forwarded, so it may end up with a single branch (its other branch was
        // infeasible).  The tree then no longer satisfies the property's precondition for further
        // eliminations: judge this elimination and stop the pipeline afterwards.
        let root_single = !super::c04::is_total(&st);
        if root_single {
            let root = st.t.tree.get_root_idx();
            for (idx, node) in st.t.tree.node_iter() {
                let k = node.children.iter().filter(|c| c.is_some()).count();
                if idx != root && k == 1 {
                    single_branch(&st, idx, &format!("step {i} ({})", info.desc), ctx)?;
                }
            }
            ctx.class("root_left_with_single_branch");
        }
        if matches!(op, HOp::Eliminate) {
            let after = format!("step {i} (infeasible_elimination)");
            let n = st.in_dim;
            let root = st.t.tree.get_root_idx();
            ctx.class_if(cached, "cached_states");
            // (a) no node below the root with a path region that is exactly empty
            for (idx, node) in st.t.tree.node_iter() {
                if idx == root {
                    continue;
                }
                let rows = closed(&pwl::path_rows(&st.t, idx).map_err(Failure::new)?);
                if lp::feasible_closed(&rows, n).is_none() {
                    // empty by a margin?  (dyadic data: an exactly empty closed region is empty by far
                    // more than 1e-8; the relaxed test makes the demand explicit)
                    let relaxed: Vec<lp::Row> = lp::relaxed(&rows, &delta());
                    if lp::feasible_closed(&relaxed, n).is_none() {
                        let shown: Vec<String> = rows.iter().map(|r| format!("{:?} <= {}", r.a.iter().map(|v| v.to_f64()).collect::<Vec<_>>(), r.b.to_f64())).collect();
                        return Err(Failure::with(
                            format!("after {after}: node {idx} survives although its path region is empty by a margin"),
                            serde_json::json!({"path_rows": shown}),
                        ));
                    }
                    ctx.count("thin_survivor", 1);
                }
                // (b) no decision below the root with a single branch
                let k = node.children.iter().filter(|c| c.is_some()).count();
                if k == 1 {
                    single_branch(&st, idx, &after, ctx)?;
                }
            }
            let removed = before.len().saturating_sub(st.t.len());
            removed_any |= removed > 0;
            // forwarded = a decision vanished while a descendant survived
            let (_, sd) = vanish_check(&before, &st.t, &after)?;
            forwarded_any |= sd > 0;
            // (c) idempotent: a second run changes nothing and solves no infeasible LP
            let d1 = pwl::dump(&st.t);
            let mut again = st.t.clone();
            let counter = must("infeasible_elimination (second run)", || again.infeasible_elimination())?;
            if pwl::dump(&again) != d1 {
                return Err(Failure::new(format!("after {after}: running the elimination again changed the tree ({} -> {} nodes)", d1.len(), again.len())));
            }
            if counter.lps_infeasible != 0 {
                return Err(Failure::new(format!("after {after}: the second run still found {} infeasible LPs", counter.lps_infeasible)));
            }
            cached = true;
        }
        if info.pruning {
            cached = true;
        }
        if root_single {
            break;
        }
    }
    // (d) terminal count between #full-dimensional and #closed non-empty activation regions
    // The statement makes this claim "for a distilled network": layers of ordinary magnitude.  With predicate
    // rows scaled by 2^-25 the library's raw 1e-8 containment tolerance legitimately keeps regions that are
    // empty by a wide geometric margin (a witness at x = -0.25 "satisfies" -2^-25 x <= 0 within 7.5e-9), so the
    // count is only judged for histories without scaled rows; the per-node demands (a)-(c) are made regardless.
    let scaled = history_has_scaled_rows(&h);
    ctx.class_if(scaled, "scaled_rows_count_bound_not_judged");
    if twin_ok && ended_with_elimination && !scaled && twin.t.num_terminals() <= 256 {
        let cells = Ref::from_afftree(&twin.t).cells();
        let n = st.in_dim;
        // lower bound: regions containing a ball of radius 1e-6; upper bound: regions that are not
        // empty by a margin (in the exact dyadic regime these are the full-dimensional and the closed
        // non-empty regions of the statement; with rounded coefficients, e.g. 1/6 in hard sigmoid,
        // the solver tolerance is granted)
        let mut full = 0;
        let mut nonempty = 0;
        let mut exact_full = 0;
        let mut exact_nonempty = 0;
        for c in &cells {
            if c.val.is_none() {
                continue;
            }
            let rows = closed(&c.rows);
            let relaxed: Vec<lp::Row> = lp::relaxed(&rows, &delta());
            if lp::feasible_closed(&relaxed, n).is_some() {
                nonempty += 1;
            }
            if lp::has_ball_boxed(&rows, n, &delta()) {
                full += 1;
            }
            if lp::feasible_closed(&rows, n).is_some() {
                exact_nonempty += 1;
                if lp::full_dim(&rows, n).is_some() {
                    exact_full += 1;
                }
            }
        }
        ctx.class_if(exact_full != full || exact_nonempty != nonempty, "tolerance_band_nonempty");
        let t = st.t.num_terminals();
        ctx.count("regions_full_dim", full as u64);
        ctx.count("regions_closed_nonempty", nonempty as u64);
        ctx.count("terminals", t as u64);
        // a single-node tree keeps its root regardless
        if !(full <= t && t <= nonempty.max(1)) {
            return Err(Failure::new(format!(
                "after the final elimination the tree has {t} terminals, but the unpruned composition has {full} regions with a ball of radius 1e-6 and {nonempty} regions that are not empty by a margin (exactly: {exact_full} full-dimensional, {exact_nonempty} closed non-empty)"
            )));
        }
        ctx.class("region_count_checked");
    }
    ctx.set_nontrivial(removed_any && forwarded_any);
    Ok(())
}

impl Property for C06 {
    type Case = History;
    fn id(&self) -> &'static str {
        "C06"
    }
    fn rule(&self) -> String {
        "total binary trees built by pipelines over {apply_func, compose<false>, compose<true>, infeasible_elimination} from total constructors (new, from_aff, from_poly with else, schema trees, generated total trees with contradicting predicates), always ending with an elimination; after every elimination: (a) no node below the root has an exactly empty closed path polytope (exact LP), (b) no decision below the root has a single branch, (c) a second run leaves the arena identical and reports 0 infeasible LPs, (d) the final number of terminals lies between the numbers of full-dimensional and of closed non-empty regions of the unpruned composition of the same operands (both counted by exact LP). Non-trivial = an elimination removed a node and forwarded a decision; distinct = distinct serialised histories; 1 history in 25 has its input-space data translated by 2^20..2^30 (data far from the origin)".into()
    }
    fn assumptions(&self) -> Vec<String> {
        vec!["with dyadic data an exactly empty closed region is empty by a margin >> 1e-8; a survivor that is exactly empty but not by the relaxed margin is counted as thin_survivor, not judged".into(), "the unpruned twin uses compose<false> (decided separately by C02)".into()]
    }
    fn cases(&self, tier: Tier) -> usize {
        tier.pick(20000, 300_000)
    }
    fn strategy(&self, tier: Tier) -> BoxedStrategy<History> {
        let max_ops = tier.pick(6, 10);
        (
            1usize..=MAXD,
            any::<u8>(),
            ctor(),
            proptest::collection::vec(total_ops(), 1..=max_ops),
            proptest::collection::vec(crate::gen::point_spec(MAXD), 4..8),
            proptest::collection::vec(crate::gen::lattice(MAXD), 1..=3),
        )
            .prop_flat_map(|(in_dim, out0, ctor, ops, points, anchors)| (Just((in_dim, out0, ctor, ops, points, anchors)), prop_oneof![24 => Just(0i8), 1 => 20i8..=30]))
            .prop_map(|((in_dim, out0, ctor, ops, points, anchors), shift)| History { in_dim, out0, ctor, ops, points, anchors, shift })
            .boxed()
    }
    fn run(&self, case: &History, ctx: &mut Ctx) -> CaseResult {
        run_case(case, ctx)
    }
}
