//! C19 — text and DOT renderings are faithful to the objects they show.
//! Oracle: a small parser of the output grammar (DESIGN.md Appendix B), written from the grammar.

use crate::gen::*;
use crate::gen_tree::*;
use crate::runner::*;
use affinitree::linalg::affine::{AffFunc, Polytope};
use affinitree::linalg::impl_affineformat::FormatOptions;
use affinitree::pwl::afftree::AffTree;
use affinitree::pwl::dot::Dot;
use proptest::prelude::*;
use serde::{Deserialize, Serialize};
use std::collections::BTreeSet;
use std::ops::{Bound, RangeBounds};

#[derive(Clone, Debug, Serialize, Deserialize)]
pub enum B {
    Inc(i32),
    Exc(i32),
    Unb,
}

impl B {
    fn to(&self) -> Bound<i32> {
        match self {
            B::Inc(v) => Bound::Included(*v),
            B::Exc(v) => Bound::Excluded(*v),
            B::Unb => Bound::Unbounded,
        }
    }
}

#[derive(Clone, Debug, Serialize, Deserialize)]
pub struct Opts {
    pub sort: u8, // 0: off, 1: 1, 2: n, 3: n+1, 4: 5 (library default for polytopes)
    pub simplify_zero: bool,
    pub simplify_tautologies: bool,
    pub normalize: bool,
    pub skip_axes: (B, B),
    pub skip_rows: (B, B),
}

#[derive(Clone, Debug, Serialize, Deserialize)]
pub enum Case {
    Func { a: Aff, opts: Opts, prec: Option<u8> },
    Poly { a: Aff, opts: Opts, prec: Option<u8> },
    Tree { t: TreeSpec, dot: bool },
}

fn fmt_opts(o: &Opts, n: usize) -> FormatOptions {
    FormatOptions {
        sort_coefficients: match o.sort {
            0 => 0,
            1 => 1,
            2 => n,
            3 => n + 1,
            _ => 5,
        },
        simplify_zero: o.simplify_zero,
        simplify_tautologies: o.simplify_tautologies,
        normalize: o.normalize,
        skip_axes_n: 0,
        skip_axes: (o.skip_axes.0.to(), o.skip_axes.1.to()),
        skip_rows_n: 0,
        skip_rows: (o.skip_rows.0.to(), o.skip_rows.1.to()),
    }
}

// ---------------------------------------------------------------------------------------------
// parser

#[derive(Clone, Debug)]
struct Num {
    neg: bool,
    mag: f64,
    zero_printed: bool,
}

#[derive(Clone, Debug)]
enum Elem {
    Term(Num, usize),
    Ellipsis,
}

#[derive(Clone, Debug)]
enum Line {
    VEllipsis,
    Top,
    Bot,
    Ineq(Vec<Elem>, Num),
    Comb(Num, Vec<Elem>),
}

fn parse_num(tok: &str) -> Result<Num, String> {
    let mut chars = tok.chars();
    let neg = match chars.next() {
        Some('+') => false,
        Some('−') => true,
        other => return Err(format!("number token {tok:?} starts with {other:?}, expected '+' or '−'")),
    };
    let rest: String = chars.collect();
    if rest.is_empty() || !rest.chars().all(|c| c.is_ascii_digit() || c == '.') {
        return Err(format!("number token {tok:?} has a malformed magnitude"));
    }
    let mag: f64 = rest.parse().map_err(|_| format!("number token {tok:?} does not parse"))?;
    Ok(Num { neg, mag, zero_printed: rest.chars().all(|c| c == '0' || c == '.') })
}

fn parse_elems(toks: &[&str]) -> Result<Vec<Elem>, String> {
    let mut out = Vec::new();
    let mut i = 0;
    while i < toks.len() {
        if toks[i] == "⋯" {
            out.push(Elem::Ellipsis);
            i += 1;
            continue;
        }
        let num = parse_num(toks[i])?;
        let var = toks.get(i + 1).ok_or_else(|| format!("coefficient {:?} is not followed by a variable", toks[i]))?;
        let idx: usize = var.strip_prefix('$').and_then(|s| s.parse().ok()).ok_or_else(|| format!("expected a variable like $3 after {:?}, got {var:?}", toks[i]))?;
        out.push(Elem::Term(num, idx));
        i += 2;
    }
    Ok(out)
}

fn parse_line(line: &str, poly: bool) -> Result<Line, String> {
    let toks: Vec<&str> = line.split_whitespace().collect();
    if toks == ["⋮"] {
        return Ok(Line::VEllipsis);
    }
    if poly {
        if toks == ["⊤"] {
            return Ok(Line::Top);
        }
        if toks == ["⊥"] {
            return Ok(Line::Bot);
        }
        let pos = toks.iter().position(|t| *t == "≤").ok_or_else(|| format!("inequality line {line:?} has no ≤"))?;
        if pos + 2 != toks.len() {
            return Err(format!("inequality line {line:?}: expected exactly one number after ≤"));
        }
        Ok(Line::Ineq(parse_elems(&toks[..pos])?, parse_num(toks[pos + 1])?))
    } else {
        if toks.is_empty() {
            return Err("empty line in a function rendering".into());
        }
        Ok(Line::Comb(parse_num(toks[0])?, parse_elems(&toks[1..])?))
    }
}

// ---------------------------------------------------------------------------------------------
// checks

fn check_num(what: &str, n: &Num, stored: f64, prec: usize) -> Result<(), String> {
    let unit = 10f64.powi(-(prec as i32));
    let tol = 0.5 * unit + 1e-12 * stored.abs() + 1e-300;
    if (n.mag - stored.abs()).abs() > tol {
        return Err(format!("{what}: printed magnitude {} but the stored value is {stored} (precision {prec})", n.mag));
    }
    if !n.zero_printed && n.neg != stored.is_sign_negative() {
        return Err(format!("{what}: printed sign {} but the stored value is {stored}", if n.neg { "−" } else { "+" }));
    }
    Ok(())
}

struct RowCheck {
    changed_by_options: bool,
}

fn check_lincomb(what: &str, elems: &[Elem], coeffs: &[f64], opts: &FormatOptions, prec: usize) -> Result<RowCheck, String> {
    let n = coeffs.len();
    let sorted = opts.sort_coefficients != 0 && opts.sort_coefficients <= n;
    let hidden_pos: Vec<usize> = (0..n).filter(|p| opts.skip_axes.contains(&(*p as i32))).collect();
    let shown_n = n - hidden_pos.len();
    let terms: Vec<(&Num, usize)> = elems.iter().filter_map(|e| if let Elem::Term(nm, i) = e { Some((nm, *i)) } else { None }).collect();
    let ell: Vec<usize> = elems.iter().enumerate().filter(|(_, e)| matches!(e, Elem::Ellipsis)).map(|(i, _)| i).collect();
    if terms.len() != shown_n {
        return Err(format!("{what}: {} coefficients are shown, but {shown_n} of {n} are outside the skip range", terms.len()));
    }
    if hidden_pos.is_empty() != ell.is_empty() || ell.len() > 1 {
        return Err(format!("{what}: {} coefficient(s) are omitted but {} ellipsis marker(s) are printed", hidden_pos.len(), ell.len()));
    }
    if let Some(&e) = ell.first() {
        let before = hidden_pos[0]; // number of shown positions before the first hidden one
        if e != before {
            return Err(format!("{what}: ellipsis printed after {e} terms, but the first omitted position is {before}"));
        }
    }
    let mut seen = BTreeSet::new();
    for (k, (num, idx)) in terms.iter().enumerate() {
        if *idx >= n {
            return Err(format!("{what}: variable ${idx} does not exist (dimension {n})"));
        }
        if !seen.insert(*idx) {
            return Err(format!("{what}: variable ${idx} is shown twice"));
        }
        check_num(&format!("{what}: coefficient of ${idx}"), num, coeffs[*idx], prec)?;
        if !sorted {
            // original order: the k-th shown term is the k-th non-hidden position
            let pos = (0..n).filter(|p| !hidden_pos.contains(p)).nth(k).unwrap();
            if *idx != pos {
                return Err(format!("{what}: term {k} shows ${idx}, expected ${pos} (no sorting requested)"));
            }
        }
    }
    if sorted {
        let mags: Vec<f64> = terms.iter().map(|(_, i)| coeffs[*i].abs()).collect();
        for w in mags.windows(2) {
            if w[0] < w[1] {
                return Err(format!("{what}: coefficients are to be sorted by magnitude but {} is shown before {}", w[0], w[1]));
            }
        }
        if !hidden_pos.is_empty() {
            let before = hidden_pos[0];
            let hidden_idx: Vec<usize> = (0..n).filter(|i| !seen.contains(i)).collect();
            for h in hidden_idx {
                let m = coeffs[h].abs();
                if before > 0 && m > mags[before - 1] {
                    return Err(format!("{what}: omitted coefficient of ${h} ({m}) is larger than the shown one before the ellipsis"));
                }
                if before < mags.len() && m < mags[before] {
                    return Err(format!("{what}: omitted coefficient of ${h} ({m}) is smaller than the shown one after the ellipsis"));
                }
            }
        }
    }
    let order_changed = sorted && terms.iter().enumerate().any(|(k, (_, i))| *i != k);
    Ok(RowCheck { changed_by_options: order_changed || !hidden_pos.is_empty() })
}

/// rows of `text` against the stored matrix/bias
fn check_block(what: &str, text: &str, mat: &[Vec<f64>], bias: &[f64], opts: &FormatOptions, prec: usize, poly: bool) -> Result<bool, String> {
    let m = mat.len();
    let hidden_rows: Vec<usize> = (0..m).filter(|r| opts.skip_rows.contains(&(*r as i32))).collect();
    let shown_rows: Vec<usize> = (0..m).filter(|r| !hidden_rows.contains(r)).collect();
    let mut lines: Vec<&str> = text.split('\n').collect();
    while lines.last().map(|l| l.is_empty()).unwrap_or(false) {
        lines.pop();
    }
    let parsed: Vec<Line> = lines.iter().map(|l| parse_line(l, poly)).collect::<Result<_, _>>().map_err(|e| format!("{what}: {e}"))?;
    let vell: Vec<usize> = parsed.iter().enumerate().filter(|(_, l)| matches!(l, Line::VEllipsis)).map(|(i, _)| i).collect();
    if hidden_rows.is_empty() != vell.is_empty() || vell.len() > 1 {
        return Err(format!("{what}: {} row(s) are omitted but {} ⋮ marker(s) are printed", hidden_rows.len(), vell.len()));
    }
    if let Some(&v) = vell.first() {
        let before = shown_rows.iter().filter(|r| **r < hidden_rows[0]).count();
        if v != before {
            return Err(format!("{what}: ⋮ printed after {v} rows, expected after {before}"));
        }
    }
    let rows: Vec<&Line> = parsed.iter().filter(|l| !matches!(l, Line::VEllipsis)).collect();
    if rows.len() != shown_rows.len() {
        return Err(format!("{what}: {} rows are printed, {} of {m} are outside the skip range", rows.len(), shown_rows.len()));
    }
    let mut changed = !hidden_rows.is_empty();
    for (line, &r) in rows.iter().zip(&shown_rows) {
        let w = format!("{what}, row {r}");
        let all_zero = mat[r].iter().all(|x| *x == 0.0);
        match line {
            Line::VEllipsis => unreachable!(),
            Line::Top | Line::Bot => {
                if !(opts.simplify_tautologies && all_zero) {
                    return Err(format!("{w}: printed as a tautology symbol although the row is not all-zero or simplification is off"));
                }
                let top = matches!(line, Line::Top);
                if top != (bias[r] >= 0.0) {
                    return Err(format!("{w}: printed {} but the row is 0 <= {}", if top { "⊤" } else { "⊥" }, bias[r]));
                }
            }
            Line::Ineq(elems, b) => {
                if opts.simplify_tautologies && all_zero {
                    return Err(format!("{w}: all-zero row must be simplified to ⊤/⊥"));
                }
                let (coeffs, bb): (Vec<f64>, f64) = if opts.normalize && !all_zero {
                    let scale = mat[r].iter().fold(0f64, |a, &x| a.max(x.abs()));
                    changed |= scale != 1.0;
                    (mat[r].iter().map(|x| x / scale).collect(), bias[r] / scale)
                } else {
                    (mat[r].clone(), bias[r])
                };
                changed |= check_lincomb(&w, elems, &coeffs, opts, prec)?.changed_by_options;
                check_num(&format!("{w}: right-hand side"), b, bb, prec)?;
            }
            Line::Comb(b, elems) => {
                check_num(&format!("{w}: bias"), b, bias[r], prec)?;
                if opts.simplify_zero && all_zero {
                    if !elems.is_empty() {
                        return Err(format!("{w}: all-zero coefficients must be omitted (simplify_zero)"));
                    }
                } else {
                    changed |= check_lincomb(&w, elems, &mat[r], opts, prec)?.changed_by_options;
                }
            }
        }
    }
    Ok(changed)
}

fn rows_of(a: &AffFunc) -> (Vec<Vec<f64>>, Vec<f64>) {
    (a.mat.outer_iter().map(|r| r.to_vec()).collect(), a.bias.to_vec())
}

fn node_text_ok(what: &str, text: &str, aff: &AffFunc, leaf: bool) -> Result<(), String> {
    let (mat, bias) = rows_of(aff);
    let opts = if leaf { FormatOptions::default_func() } else { FormatOptions::default_poly() };
    check_block(what, text, &mat, &bias, &opts, 2, !leaf).map(|_| ())
}

fn check_tree_display(t: &AffTree<2>) -> Result<(), String> {
    let s = format!("{}", t);
    let mut lines = s.split('\n').collect::<Vec<_>>();
    while lines.last().map(|l| l.is_empty()).unwrap_or(false) {
        lines.pop();
    }
    let header = format!("Decision Tree with {} nodes", t.len());
    if lines.first().copied() != Some(header.as_str()) {
        return Err(format!("Display: first line {:?}, expected {header:?}", lines.first()));
    }
    // split into entries
    let is_entry = |l: &str| -> Option<(usize, bool, usize)> {
        // "[  3|T] rest"
        let l2 = l.strip_prefix('[')?;
        let bar = l2.find('|')?;
        let idx: usize = l2[..bar].trim().parse().ok()?;
        let flag = l2[bar + 1..].chars().next()?;
        if !(flag == 'T' || flag == 'D') || !l2[bar + 2..].starts_with("] ") {
            return None;
        }
        Some((idx, flag == 'T', 1 + bar + 4))
    };
    let mut entries: Vec<(usize, bool, String, Option<String>)> = Vec::new();
    for l in &lines[1..] {
        if let Some((idx, leaf, off)) = is_entry(l) {
            entries.push((idx, leaf, l[off..].to_string(), None));
        } else if let Some(ch) = l.strip_prefix("children: ") {
            let e = entries.last_mut().ok_or("children line before any node")?;
            if e.3.is_some() {
                return Err(format!("Display: node {} has two children lines", e.0));
            }
            e.3 = Some(ch.to_string());
        } else {
            let e = entries.last_mut().ok_or("text before any node")?;
            if e.3.is_some() {
                return Err(format!("Display: text after the children line of node {}", e.0));
            }
            e.2.push('\n');
            e.2.push_str(l);
        }
    }
    let arena: Vec<usize> = t.tree.node_indices().collect();
    let shown: Vec<usize> = entries.iter().map(|e| e.0).collect();
    if arena != shown {
        return Err(format!("Display lists nodes {shown:?}, the arena holds {arena:?}"));
    }
    for (idx, leaf, text, ch) in &entries {
        let node = t.tree.tree_node(*idx).unwrap();
        if *leaf != node.isleaf {
            return Err(format!("Display: node {idx} flagged {} but isleaf = {}", if *leaf { "T" } else { "D" }, node.isleaf));
        }
        node_text_ok(&format!("Display of node {idx}"), text, &node.value.aff, node.isleaf)?;
        let exp: Vec<(usize, usize)> = node.children.iter().enumerate().filter_map(|(l, c)| c.map(|c| (l, c))).collect();
        let got: Vec<(usize, usize)> = match ch {
            None => vec![],
            Some(c) => c
                .split(", ")
                .map(|p| {
                    let (l, i) = p.split_once("->").ok_or_else(|| format!("Display: malformed child entry {p:?}"))?;
                    Ok((l.trim().parse::<usize>().map_err(|_| format!("bad label in {p:?}"))?, i.trim().parse::<usize>().map_err(|_| format!("bad index in {p:?}"))?))
                })
                .collect::<Result<_, String>>()?,
        };
        if got != exp {
            return Err(format!("Display: node {idx} lists children {got:?}, the arena has {exp:?}"));
        }
    }
    Ok(())
}

fn check_dot(t: &AffTree<2>) -> Result<(), String> {
    let s = format!("{}", Dot::from(t));
    let head = "digraph afftree {\nbgcolor=transparent;\nconcentrate=true;\nmargin=0;\n";
    let body = s.strip_prefix(head).ok_or("DOT output does not start with the documented preamble")?;
    let body = body.strip_suffix('}').ok_or("DOT output does not end with }")?;
    // statements end with "];\n"
    let mut nodes: Vec<(usize, String)> = Vec::new();
    let mut edges: Vec<(usize, usize, usize)> = Vec::new();
    let mut rest = body;
    while !rest.is_empty() {
        let end = rest.find("];\n").ok_or_else(|| format!("DOT: unterminated statement near {:?}", &rest[..rest.len().min(40)]))?;
        let stmt = &rest[..end];
        rest = &rest[end + 3..];
        let stmt = stmt.strip_prefix('n').ok_or_else(|| format!("DOT: statement {stmt:?} does not start with a node id"))?;
        if let Some((a, tail)) = stmt.split_once(" -> n") {
            let (b, attrs) = tail.split_once(" [label=").ok_or_else(|| format!("DOT: edge {stmt:?} has no label"))?;
            let (l, _) = attrs.split_once(", ").ok_or_else(|| format!("DOT: edge {stmt:?} attributes malformed"))?;
            edges.push((a.parse().map_err(|_| "DOT: bad edge source")?, l.parse().map_err(|_| "DOT: bad edge label")?, b.parse().map_err(|_| "DOT: bad edge target")?));
        } else {
            let (idx, tail) = stmt.split_once(" [label=\"").ok_or_else(|| format!("DOT: node statement {stmt:?} has no label"))?;
            let q = tail.rfind("\", ").ok_or_else(|| format!("DOT: node statement {stmt:?}: label not closed"))?;
            nodes.push((idx.parse().map_err(|_| "DOT: bad node id")?, tail[..q].to_string()));
        }
    }
    let arena: Vec<usize> = t.tree.node_indices().collect();
    let mut shown: Vec<usize> = nodes.iter().map(|n| n.0).collect();
    shown.sort();
    if shown != arena {
        return Err(format!("DOT has node statements for {shown:?}, the arena holds {arena:?}"));
    }
    for (idx, text) in &nodes {
        let node = t.tree.tree_node(*idx).unwrap();
        node_text_ok(&format!("DOT label of node {idx}"), text, &node.value.aff, node.isleaf)?;
    }
    let mut exp: Vec<(usize, usize, usize)> = Vec::new();
    for (i, n) in t.tree.node_iter() {
        for (l, c) in n.children.iter().enumerate() {
            if let Some(c) = c {
                exp.push((i, l, *c));
            }
        }
    }
    let mut got = edges.clone();
    got.sort();
    exp.sort();
    if got != exp {
        return Err(format!("DOT edge statements {got:?} differ from the arena's (parent,label,child) triples {exp:?}"));
    }
    Ok(())
}

pub fn run_case(c: &Case, ctx: &mut Ctx) -> CaseResult {
    match c {
        Case::Func { a, opts, prec } | Case::Poly { a, opts, prec } => {
            let poly = matches!(c, Case::Poly { .. });
            ctx.class(if poly { "polytope" } else { "function" });
            let n = a.indim();
            let fo = fmt_opts(opts, n);
            let p = prec.map(|p| p as usize).unwrap_or(2);
            let text = if poly {
                let pl = Polytope::from_mats(a.mat.to_array(), arr(&a.bias));
                must("format polytope", || match prec {
                    Some(pp) => format!("{:.*}", *pp as usize, pl.display_with(fo.clone())),
                    None => format!("{}", pl.display_with(fo.clone())),
                })?
            } else {
                let f = a.lib();
                must("format function", || match prec {
                    Some(pp) => format!("{:.*}", *pp as usize, f.display_with(fo.clone())),
                    None => format!("{}", f.display_with(fo.clone())),
                })?
            };
            let changed = check_block(if poly { "polytope" } else { "function" }, &text, &a.mat.rows, &a.bias, &fo, p, poly)
                .map_err(|e| Failure::with(e, serde_json::json!({"output": text})))?;
            ctx.class_if(changed, "options_changed_output");
            ctx.set_nontrivial(changed && n >= 2);
            Ok(())
        }
        Case::Tree { t, dot } => {
            let tr = t.resolve(&[]);
            let tree = tr.build::<2>(&t.order, &t.junk);
            let holes = tree.tree.node_indices().enumerate().any(|(i, idx)| i != idx);
            ctx.class_if(holes, "index_holes");
            if *dot {
                ctx.class("dot");
                let r = guard(|| check_dot(&tree)).map_err(|p| Failure::new(format!("Dot rendering panicked: {p}")))?;
                r.map_err(|e| Failure::with(e, serde_json::json!({"output": format!("{}", Dot::from(&tree))})))?;
            } else {
                ctx.class("tree_display");
                let r = guard(|| check_tree_display(&tree)).map_err(|p| Failure::new(format!("Display rendering panicked: {p}")))?;
                r.map_err(|e| Failure::with(e, serde_json::json!({"output": format!("{}", tree)})))?;
            }
            ctx.set_nontrivial(tr.count() >= 3);
            Ok(())
        }
    }
}

fn num() -> BoxedStrategy<f64> {
    prop_oneof![
        4 => nice(),
        3 => (-999i32..=999).prop_map(|k| k as f64 / 100.0),
        1 => nice().prop_map(|x| x * 1e6),
        1 => nice().prop_map(|x| x * 1e-5),
        // far below f64::EPSILON but not zero (cancellation residues such as 0.1 + 0.2 - 0.3), and huge
        1 => prop_oneof![Just(5.551115123125783e-17), Just(-5.551115123125783e-17), Just(2f64.powi(-60)), Just(-1e-200), Just(1e15), Just(-3e20)],
        1 => Just(-0.0),
        2 => Just(0.0),
        1 => (-99999i32..=99999).prop_map(|k| k as f64 / 1000.0 + 0.0005),
    ]
    .boxed()
}

fn bound() -> impl Strategy<Value = B> {
    prop_oneof![2 => (-1i32..=8).prop_map(B::Inc), 2 => (-1i32..=8).prop_map(B::Exc), 1 => Just(B::Unb)]
}

fn opts() -> impl Strategy<Value = Opts> {
    (0u8..5, any::<bool>(), any::<bool>(), any::<bool>(), prop_oneof![1 => Just((B::Inc(1), B::Exc(0))), 2 => (bound(), bound())], prop_oneof![1 => Just((B::Inc(1), B::Exc(0))), 1 => (bound(), bound())])
        .prop_map(|(sort, simplify_zero, simplify_tautologies, normalize, skip_axes, skip_rows)| Opts { sort, simplify_zero, simplify_tautologies, normalize, skip_axes, skip_rows })
}

pub struct C19;

impl Property for C19 {
    type Case = Case;
    fn id(&self) -> &'static str {
        "C19"
    }
    fn rule(&self) -> String {
        "matrices/biases (1..7 columns, 1..6 rows) mixing dyadic numbers, decimals, 1e6 and 1e-5 magnitudes, residues of 5.55e-17 / 2^-60 / 1e-200 and values of 1e15 / 3e20, half-way decimals, +0.0 and -0.0, zero rows; all FormatOptions combinations (sort_coefficients in {0,1,n,n+1,5}, the three booleans, skip_axes/skip_rows as arbitrary (Bound,Bound) pairs incl. empty and unbounded); precision default or 0..8; trees (total/partial, arena layouts with holes) for Display and Dot. The output is parsed back by a recursive-descent parser of the grammar and compared with the stored object: index/coefficient attachment, printed value within half a unit of the printed precision, sign, inequality direction and bias, normalisation by max |coeff|, ⊤/⊥, simplify_zero, ellipsis <=> something omitted and at the right place, sorted order and bracketing of omitted magnitudes, one statement per node and per edge with the node's own function under the default options. Non-trivial = sorting/skipping/normalisation actually changed the output (dimension >= 2), or a tree with >= 3 nodes; distinct = distinct serialised cases".into()
    }
    fn assumptions(&self) -> Vec<String> {
        vec!["DOT shape attributes are outside the statement (and pinned by test_dot_str)".into(), "ties in the magnitude sort may appear in any order (sort_unstable)".into(), "skip ranges are single intervals (Bound, Bound)".into()]
    }
    fn cases(&self, tier: Tier) -> usize {
        tier.pick(150000, 4_000_000)
    }
    fn strategy(&self, tier: Tier) -> BoxedStrategy<Case> {
        let _ = tier;
        let mat = (sized(7, 26), sized(6, 9)).prop_flat_map(|(n, m)| aff_of(m, n, num()));
        let func = (mat.clone(), opts(), prop::option::weighted(0.7, 0u8..=8)).prop_map(|(a, opts, prec)| Case::Func { a, opts, prec });
        let poly = (mat, opts(), prop::option::weighted(0.7, 0u8..=8)).prop_map(|(a, opts, prec)| Case::Poly { a, opts, prec });
        let tree = (sized(3, 5), sized(3, 8))
            .prop_flat_map(|(n, p)| (super::c02::tree_params_strategy(2, n, p, 3).prop_flat_map(tree_spec), any::<bool>()))
            .prop_map(|(t, dot)| Case::Tree { t, dot });
        prop_oneof![3 => func, 3 => poly, 2 => tree].boxed()
    }
    fn run(&self, case: &Case, ctx: &mut Ctx) -> CaseResult {
        run_case(case, ctx)
    }
}
