//! C01 — distillation is faithful: the tree computes exactly the network.

use crate::exact::{AffQ, Q};
use crate::gen::*;
use crate::gen_tree::{aff_rows, anchor_images};
use crate::hist::{project_aff, project_poly};
use crate::pwl::{self, compare_tree_opts, EquivMode, Ref};
use crate::runner::*;
use crate::schema::SchemaSpec;
use affinitree::distill::builder::{afftree_from_layers, Layer};
use affinitree::linalg::affine::AffFunc;
use affinitree::pwl::afftree::AffTree;
use proptest::prelude::*;
use serde::{Deserialize, Serialize};

pub const W: usize = 4;

#[derive(Clone, Debug, Serialize, Deserialize)]
pub enum Act {
    None,
    ReLU,
    Leaky(f64),
    HardTanh,
    HardSigmoid,
}

#[derive(Clone, Debug, Serialize, Deserialize)]
pub struct LinSpec {
    pub a: Aff, // W x W, projected
    pub width: u8,
    /// per neuron: make the pre-activation equal `target` exactly at anchor `anchor`
    pub plant: Vec<Option<(u16, i8)>>,
    /// copy row i to row j (ties between output neurons)
    pub dup: Option<(u8, u8)>,
    pub acts: Vec<Act>,
    /// weights and bias of the layer are multiplied by 2^scale (exact)
    #[serde(default)]
    pub scale: i8,
    /// 0 = ordinary width; k > 0 = a wide layer of 15 + k neurons (k <= 25)
    #[serde(default)]
    pub wide: u8,
    /// a second round of activations on the same neurons before the next linear layer (clipped ReLU = ReLU then
    /// hard tanh, leaky ReLU twice, ...): an activation layer may follow an activation layer
    #[serde(default)]
    pub acts2: Vec<Act>,
}

#[derive(Clone, Debug, Serialize, Deserialize)]
pub enum Head {
    None,
    Argmax,
    ClassChar(u16),
}

#[derive(Clone, Debug, Serialize, Deserialize)]
pub enum Pre {
    None,
    Poly(PolySpec),
}

#[derive(Clone, Debug, Serialize, Deserialize)]
pub struct Case {
    pub in_dim: usize,
    pub layers: Vec<LinSpec>,
    pub head: Head,
    pub post: Option<Aff>,
    pub pre: Pre,
    pub anchors: Vec<Vec<f64>>,
    pub points: Vec<PointSpec>,
    /// raw floating-point weights (float regime)
    pub float_regime: bool,
}

fn act_schema(a: &Act, row: usize) -> Option<SchemaSpec> {
    let row = row as u16;
    // `row` is passed through pick(row, dim) by SchemaSpec: encode so that pick returns it
    match a {
        Act::None => None,
        Act::ReLU => Some(SchemaSpec::ReLU { row }),
        Act::Leaky(al) => Some(SchemaSpec::Leaky { row, alpha: *al }),
        Act::HardTanh => Some(SchemaSpec::HardTanh { row, min: -1.0, width: 2.0 }),
        Act::HardSigmoid => Some(SchemaSpec::HardSigmoid { row }),
    }
}

/// selector value that `pick(sel, dim)` maps to `row`
fn sel_for(row: usize, dim: usize) -> u16 {
    (((row as u32) << 16) / dim as u32 + if row == 0 { 0 } else { 1 }) as u16
}

pub fn run_case(c: &Case, ctx: &mut Ctx) -> CaseResult {
    let n = c.in_dim;
    // generator values are 3-dimensional; larger input dimensions (the rare data-sized regime) tile them
    let tile = |a: &[f64]| -> Vec<f64> { (0..n).map(|j| a[j % a.len()]).collect() };
    let anchors: Vec<Vec<f64>> = c.anchors.iter().map(|a| tile(a)).collect();
    // precondition
    let (pre_tree, mut r): (Option<AffTree<2>>, Ref) = match &c.pre {
        Pre::None => {
            ctx.class("pre_none");
            (None, Ref::leaf(AffQ::identity(n)))
        }
        Pre::Poly(p) => {
            let mut p = project_poly(p, n);
            p.anchors.extend(anchors.iter().cloned());
            if p.rows.is_empty() {
                p.rows.push(RowSpec::Axis { axis: 0, neg: false, b: 4.0 });
            }
            let (pa, _) = p.resolve();
            let rows = aff_rows(&pa.q());
            let nonempty = crate::lp::feasible_closed(&rows, n).is_some();
            let fd = nonempty && crate::lp::full_dim(&rows, n).is_some();
            ctx.class(if !nonempty { "pre_empty" } else if !fd { "pre_lower_dim" } else { "pre_polytope" });
            let t = must("from_poly (precondition)", || AffTree::<2>::from_poly(pa.poly(), AffFunc::identity(n), None))?
                .map_err(|e| Failure::new(format!("from_poly: {e}")))?;
            (Some(t), Ref::on_polytope(&rows, Ref::leaf(AffQ::identity(n)), Ref::undef()))
        }
    };
    let mut layers: Vec<Layer> = Vec::new();
    let mut dim = n;
    let mut exact = !c.float_regime;
    let mut activated = 0;
    for ls in &c.layers {
        // widths 1..=4, or (rare) 16..=24 neurons: size-gated fast paths live there
        let width = if ls.wide > 0 { 15 + (1 + (ls.wide as usize - 1) % 25) } else { 1 + (ls.width as usize % W) };
        ctx.class_if(width >= 16, "wide_layer");
        let mut a = project_aff(&ls.a, width, dim);
        if ls.scale != 0 && exact {
            let k = 2f64.powi(ls.scale as i32);
            for r in a.mat.rows.iter_mut() {
                for v in r.iter_mut() {
                    *v *= k;
                }
            }
            for v in a.bias.iter_mut() {
                *v *= k;
            }
            ctx.class("scaled_layer");
        }
        if width >= 16 && dim >= 24 {
            // data-sized layer: the neuron in the first activation slot gets a zero bias, so that the terminals on
            // both sides of its breakpoint differ in one matrix row only
            a.bias[7] = 0.0;
            ctx.class("data_sized_layer");
        }
        if let Some((i, j)) = ls.dup {
            let (i, j) = (i as usize % width, j as usize % width);
            a.mat.rows[j] = a.mat.rows[i].clone();
            a.bias[j] = a.bias[i];
        }
        // plant breakpoints through exactly propagated anchors
        if exact {
            let imgs = anchor_images(&r, &anchors);
            for row in 0..width {
                if let Some(Some((sel, target))) = ls.plant.get(row) {
                    if !imgs.is_empty() {
                        let h = &imgs[pick(*sel, imgs.len())];
                        let wx = crate::exact::qdot(&qv(&a.mat.rows[row]), &qv(h));
                        a.bias[row] = (&Q::int(*target as i64) - &wx).to_f64();
                    }
                }
            }
        }
        layers.push(Layer::Linear(a.lib()));
        r = r.then(&Ref::leaf(a.q()));
        dim = width;
        // in a wide layer the (at most four) activation slots sit on neurons spread over the layer, not on the first four
        let slot = |k: usize| -> usize { if width >= 16 { [7, width / 2, width - 2, 3][k % 4] } else { k } };
        let slots = if width >= 16 { 4 } else { width };
        let rounds: Vec<(usize, &Act)> = (0..slots)
            .map(|k| (slot(k), ls.acts.get(k).unwrap_or(&Act::None)))
            .chain((0..slots).map(|k| (slot(k), ls.acts2.get(k).unwrap_or(&Act::None))))
            .collect();
        ctx.class_if(ls.acts2.iter().zip(&ls.acts).take(width).any(|(b, a)| !matches!(a, Act::None) && !matches!(b, Act::None)), "neuron_activated_twice");
        for (row, act) in rounds {
            // size caps: exact rational LP on rounded (53-bit) coefficients is expensive, so
            // float-regime networks get at most 4 activated neurons, exact ones at most 8
            let cap = if width >= 16 { 3 } else if exact { 8 } else { 4 };
            if activated >= cap {
                break;
            }
            if let Some(s) = act_schema(act, 0) {
                // rebuild with the right row selector
                let s = match s {
                    SchemaSpec::ReLU { .. } => SchemaSpec::ReLU { row: sel_for(row, dim) },
                    SchemaSpec::Leaky { alpha, .. } => SchemaSpec::Leaky { row: sel_for(row, dim), alpha },
                    SchemaSpec::HardTanh { min, width, .. } => SchemaSpec::HardTanh { row: sel_for(row, dim), min, width },
                    SchemaSpec::HardSigmoid { .. } => SchemaSpec::HardSigmoid { row: sel_for(row, dim) },
                    o => o,
                };
                assert_eq!(s.row(dim), Some(row), "{}: row selector encoding", crate::lp::ORACLE_ERR);
                layers.push(match act {
                    Act::ReLU => Layer::ReLU(row),
                    Act::Leaky(al) => Layer::LeakyReLU(row, *al),
                    Act::HardTanh => Layer::HardTanh(row),
                    Act::HardSigmoid => Layer::HardSigmoid(row),
                    Act::None => unreachable!(),
                });
                ctx.class(s.name());
                exact &= s.is_exact();
                r = r.then(&s.reference(dim));
                activated += 1;
            }
        }
        if r.count_leaves() > 3000 {
            ctx.class("too_large_skipped");
            return Ok(());
        }
    }
    match &c.head {
        Head::None => {}
        Head::Argmax if dim >= 2 => {
            layers.push(Layer::Argmax);
            r = r.then(&SchemaSpec::Argmax.reference(dim));
            dim = 1;
            ctx.class("head_argmax");
        }
        Head::ClassChar(cl) if dim >= 2 => {
            let clazz = pick(*cl, dim);
            layers.push(Layer::ClassChar(clazz));
            let s = SchemaSpec::ClassChar { clazz: sel_for(clazz, dim) };
            assert_eq!(s.row(dim), Some(clazz), "{}: class selector encoding", crate::lp::ORACLE_ERR);
            r = r.then(&s.reference(dim));
            dim = 1;
            ctx.class("head_class");
        }
        _ => {}
    }
    if let (Some(p), true) = (&c.post, !matches!(c.head, Head::None)) {
        let a = project_aff(p, 2, dim);
        layers.push(Layer::Linear(a.lib()));
        r = r.then(&Ref::leaf(a.q()));
        dim = 2;
        ctx.class("linear_after_head");
    }
    let _ = dim;
    if exact && !r.max_bits().map(|b| b <= 50).unwrap_or(false) {
        ctx.class("inexact_skipped");
        return Ok(());
    }
    ctx.class(if exact { "exact_regime" } else { "float_regime" });
    ctx.class(&format!("linear_layers{}", c.layers.len()));
    let t = must("afftree_from_layers", || afftree_from_layers(n, &layers, pre_tree.clone()))?;
    if t.in_dim != n {
        return Err(Failure::new(format!("distilled tree has in_dim {} but the network has {n} inputs", t.in_dim)));
    }
    let all_inputs: Vec<Vec<Q>> = c.points.iter().map(|p| qv(&tile(&p.resolve(&anchors, n.min(3))))).collect();
    let (mode, inputs): (EquivMode, Vec<Vec<Q>>) = if exact {
        (EquivMode::exact(), all_inputs)
    } else {
        // float regime: only inputs that are not within 1e-6 of a breakpoint are judged
        let lim = Q::from_f64(1e-6);
        let keep: Vec<Vec<Q>> = all_inputs.into_iter().filter(|x| r.min_abs_slack(x).map(|s| s > lim).unwrap_or(true)).collect();
        (EquivMode::approx(1e-6, 1e-9), keep)
    };
    let out = compare_tree_opts("afftree_from_layers", &t, &r, &inputs, &mode, false).map_err(|(m, d)| Failure::with(m, d))?;
    ctx.count("inputs", out.inputs as u64);
    ctx.count("inputs_on_boundary", out.on_boundary as u64);
    ctx.count("inputs_multi_boundary", out.multi_boundary as u64);
    ctx.count("inputs_undefined", out.undefined_inputs as u64);
    ctx.count("cells_fulldim", out.stats.fulldim_lhs as u64);
    ctx.count("activated_neurons", activated);
    let _ = pwl::NOTAG;
    ctx.set_nontrivial(activated >= 2 && out.stats.fulldim_lhs >= 2 && (out.on_boundary >= 1 || !exact));
    Ok(())
}

fn act() -> impl Strategy<Value = Act> {
    prop_oneof![
        2 => Just(Act::None),
        4 => Just(Act::ReLU),
        2 => prop_oneof![Just(0.0), Just(0.5), Just(-1.0), Just(2.0), Just(0.125)].prop_map(Act::Leaky),
        2 => Just(Act::HardTanh),
        1 => Just(Act::HardSigmoid),
    ]
}

fn lin_spec(float: bool) -> impl Strategy<Value = LinSpec> {
    let elem: BoxedStrategy<f64> = if float { (-2.0f64..2.0).boxed() } else { nice_sparse() };
    (
        aff_of(W, W, elem),
        any::<u8>(),
        proptest::collection::vec(prop::option::weighted(0.5, (any::<u16>(), prop_oneof![4 => Just(0i8), 1 => Just(1), 1 => Just(-1), 1 => Just(3), 1 => Just(-3)])), W),
        prop::option::weighted(0.2, (any::<u8>(), any::<u8>())),
        proptest::collection::vec(act(), W),
        prop_oneof![9 => Just(0i8), 2 => -16i8..=16],
    )
        .prop_flat_map(|(a, width, plant, dup, acts, scale)| (Just((a, width, plant, dup, acts, scale)), prop_oneof![5 => Just(Vec::<Act>::new()), 1 => proptest::collection::vec(act(), W)]))
        .prop_map(|((a, width, plant, dup, acts, scale), acts2)| LinSpec { a, width, plant, dup, acts, scale, wide: 0, acts2 })
}

pub struct C01;

impl Property for C01 {
    type Case = Case;
    fn id(&self) -> &'static str {
        "C01"
    }
    fn rule(&self) -> String {
        "networks with 1..3 inputs, 1..3 linear layers of width 1..4 (dyadic weights; ~10% raw floating-point weights), each neuron independently followed by none/ReLU/leaky ReLU (alpha in {0, 1/2, -1, 2, 1/8})/hard tanh/hard sigmoid, optional argmax or class head, optional linear layer after the head, precondition none / generated polytope (full-dimensional, lower-dimensional or empty) given as from_poly(P, identity, None); biases planted so that pre-activations hit breakpoints exactly at forward-propagated anchor points; duplicated output rows for argmax ties; a layer may carry a second round of activations on the same neurons; 2.5 % of the exact networks have a wide hidden layer (16-24 neurons, at most 3 activated). The distilled tree is compared with the network's textbook semantics on ALL full-dimensional linear regions by exact LP (reference = composition of the definitions) and by evaluate() at anchors, lattice neighbours and free lattice points, undefinedness outside the precondition included, with NO thin exemption. Non-trivial = >= 2 activated neurons, >= 2 full-dimensional cells and >= 1 input exactly on a breakpoint/tie (float regime: the first two); distinct = distinct serialised cases".into()
    }
    fn assumptions(&self) -> Vec<String> {
        vec![
            "exact regime: dyadic data, bit-for-bit equality; networks whose reference needs > 50 mantissa bits or > 3000 regions are skipped and counted".into(),
            "float regime (hard sigmoid, raw weights): regions must contain a ball of radius 1e-6, coefficients/values within 1e-9 relative, inputs within 1e-6 (1-norm normalised) of a breakpoint are not judged".into(),
            "hard tanh layer = clip to [-1, 1]; argmax = first maximal index; class head = 1 iff the class component is maximal".into(),
        ]
    }
    fn cases(&self, tier: Tier) -> usize {
        tier.pick(1500, 60_000)
    }
    fn strategy(&self, tier: Tier) -> BoxedStrategy<Case> {
        let max_layers = tier.pick(2usize, 3usize);
        (prop::bool::weighted(0.1), 1usize..=3)
            .prop_flat_map(move |(float, n)| {
                (
                    Just(float),
                    Just(n),
                    proptest::collection::vec(lin_spec(float), 1..=max_layers),
                    prop_oneof![3 => Just(Head::None), 2 => Just(Head::Argmax), 2 => any::<u16>().prop_map(Head::ClassChar)],
                    prop::option::weighted(0.3, aff(W, W)),
                    prop_oneof![2 => Just(Pre::None), 3 => poly_spec(3, 1, 4).prop_map(Pre::Poly)],
                    proptest::collection::vec(lattice(3), 1..=3),
                    proptest::collection::vec(point_spec(3), 10..25),
                )
            })
            .prop_map(|(float_regime, in_dim, layers, head, post, pre, anchors, points)| Case { in_dim, layers, head, post, pre, anchors, points, float_regime })
            .prop_flat_map(|c| (Just(c), 0u8..24, 0u8..40, 0u8..25))
            .prop_map(|(mut c, regime, wide, wk)| {
                // 2.5 % of the exact networks get a wide hidden layer (16..24 neurons, at most 3 of them
                // activated) followed by a narrow one: the cells live in the input space (dimension <= 3), so the
                // oracle's cost does not grow, but terminal maps and compositions are 16..24 wide
                if !c.float_regime && wide == 0 {
                    if c.layers.len() < 2 {
                        let l = c.layers[0].clone();
                        c.layers.push(l);
                    }
                    let last = c.layers.len() - 1;
                    // one wide network in five also has 24..40 inputs: terminal matrices of 500 and more entries
                    if wk % 8 == 0 {
                        c.in_dim = 32 + wk as usize / 4;
                    }
                    for (i, l) in c.layers.iter_mut().enumerate() {
                        if i == 0 && i != last {
                            l.wide = 1 + wk;
                        }
                    }
                }
                // ~4 % of the exact-regime networks have uniformly tiny (2^-20 per layer) or large (2^10)
                // weights and biases, without planted breakpoints (a planted bias of order 1 next to
                // weights of order 1e-6 would create badly conditioned rows rather than test the builder)
                if !c.float_regime && regime < 2 {
                    for l in c.layers.iter_mut() {
                        l.scale = if regime == 0 { -20 } else { 10 };
                        for p in l.plant.iter_mut() {
                            *p = None;
                        }
                    }
                }
                c
            })
            .boxed()
    }
    fn run(&self, case: &Case, ctx: &mut Ctx) -> CaseResult {
        run_case(case, ctx)
    }
}
