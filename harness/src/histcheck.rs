//! Oracles evaluated along operation histories (shared by C03, C04, C05, C06, C11).

use crate::exact::Q;
use crate::hist::HState;
use crate::lp::{self, Row};
use crate::pwl::{self, closed, compare_tree_opts, CompareOut, EquivMode};
use crate::runner::*;
use affinitree::pwl::afftree::AffTree;
use affinitree::pwl::node::NodeState;
use serde_json::json;
use std::collections::BTreeSet;

pub fn delta() -> Q {
    Q::from_f64(1e-6)
}

pub fn check_wellformed(st: &HState, after: &str) -> CaseResult {
    pwl::well_formed(&st.t, Some(st.out_dim)).map(|_| ()).map_err(|e| Failure::new(format!("after {after}: tree is not well-formed: {e}")))
}

pub fn check_function(st: &HState, inputs: &[Vec<Q>], thin: bool, after: &str) -> Result<CompareOut, Failure> {
    compare_tree_opts(&format!("after {after}"), &st.t, &st.r, inputs, &EquivMode::exact(), thin).map_err(|(m, d)| Failure::with(m, d))
}

#[derive(Default, Debug, Clone)]
pub struct CacheStats {
    pub witnesses: u64,
    pub witness_on_decision: u64,
    pub infeasible_marks: u64,
    pub feasible_marks: u64,
}

/// C05: stored witnesses lie in the exact path polytope (1e-8 containment tolerance), and no node
/// marked infeasible has a path region containing a ball of radius 1e-6.
pub fn check_caches<const K: usize>(t: &AffTree<K>, after: &str) -> Result<CacheStats, Failure> {
    let mut cs = CacheStats::default();
    let n = t.in_dim;
    for (idx, node) in t.tree.node_iter() {
        match &node.value.state {
            NodeState::Indeterminate => {}
            NodeState::Feasible => cs.feasible_marks += 1,
            NodeState::Infeasible => {
                cs.infeasible_marks += 1;
                let rows = pwl::path_rows(t, idx).map_err(|e| Failure::new(format!("after {after}: {e}")))?;
                if lp::has_ball_boxed(&closed(&rows), n, &delta()) {
                    return Err(Failure::with(
                        format!("after {after}: node {idx} is marked Infeasible but its path region contains a ball of radius 1e-6"),
                        json!({"node": idx}),
                    ));
                }
            }
            NodeState::FeasibleWitness(ws) => {
                if ws.is_empty() {
                    return Err(Failure::new(format!("after {after}: node {idx} has state FeasibleWitness with an empty list")));
                }
                let rows = closed(&pwl::path_rows(t, idx).map_err(|e| Failure::new(format!("after {after}: {e}")))?);
                for w in ws {
                    cs.witnesses += 1;
                    if !node.isleaf {
                        cs.witness_on_decision += 1;
                    }
                    if w.len() != n || w.iter().any(|v| !v.is_finite()) {
                        return Err(Failure::new(format!("after {after}: witness {w:?} at node {idx} is malformed")));
                    }
                    let wq: Vec<Q> = w.iter().map(|v| Q::from_f64(*v)).collect();
                    let winf = wq.iter().map(|v| v.abs()).max().unwrap_or(Q::zero());
                    for r in &rows {
                        // documented tolerance 1e-8 on the raw distance, plus float rounding of a.w
                        let tol = &Q::from_f64(1e-8) + &(&Q::from_f64(1e-12) * &(&Q::one() + &(&r.b.abs() + &(&lp_norm1(r) * &winf))));
                        if r.slack(&wq) < -&tol {
                            return Err(Failure::with(
                                format!(
                                    "after {after}: witness {w:?} stored at node {idx} violates the path condition {:?} <= {} by {}",
                                    r.a,
                                    r.b,
                                    (-r.slack(&wq)).to_f64()
                                ),
                                json!({"node": idx, "witness": w.to_vec()}),
                            ));
                        }
                    }
                }
            }
        }
    }
    Ok(cs)
}

fn lp_norm1(r: &Row) -> Q {
    crate::exact::norm1(&r.a)
}

/// C03 for infeasible_elimination (indices are stable): every terminal that vanished had a region
/// without a ball of radius 1e-6; a decision that was skipped (some descendant survives) lost only
/// branches of that kind.
pub fn vanish_check(before: &AffTree<2>, after: &AffTree<2>, what: &str) -> Result<(usize, usize), Failure> {
    let n = before.in_dim;
    let alive: BTreeSet<usize> = after.tree.node_indices().collect();
    let mut vanished_terms = 0;
    let mut skipped_decisions = 0;
    for (idx, node) in before.tree.node_iter() {
        if alive.contains(&idx) {
            continue;
        }
        let has_children = node.children.iter().any(|c| c.is_some());
        if !has_children {
            vanished_terms += 1;
            let rows = closed(&pwl::path_rows(before, idx).map_err(Failure::new)?);
            if lp::has_ball_boxed(&rows, n, &delta()) {
                let p = lp::interior_point(&rows, n);
                return Err(Failure::with(
                    format!("{what} removed terminal {idx} although its region contains a ball of radius 1e-6"),
                    json!({"node": idx, "point_in_region": p.map(|x| x.iter().map(|q| q.to_f64()).collect::<Vec<_>>())}),
                ));
            }
        } else {
            // does any descendant survive?
            let mut survivors = Vec::new();
            for (label, c) in node.children.iter().enumerate() {
                if let Some(c) = c {
                    let mut st = vec![*c];
                    let mut any = false;
                    while let Some(i) = st.pop() {
                        if alive.contains(&i) {
                            any = true;
                            break;
                        }
                        st.extend(before.tree.tree_node(i).unwrap().children.iter().flatten().copied());
                    }
                    survivors.push((label, *c, any));
                }
            }
            if survivors.iter().any(|s| s.2) {
                skipped_decisions += 1;
                for (label, c, any) in &survivors {
                    if !*any {
                        let rows = closed(&pwl::path_rows(before, *c).map_err(Failure::new)?);
                        if lp::has_ball_boxed(&rows, n, &delta()) {
                            return Err(Failure::with(
                                format!("{what} skipped decision {idx} although its branch {label} (node {c}) has a region containing a ball of radius 1e-6"),
                                json!({"decision": idx, "branch": label}),
                            ));
                        }
                    }
                }
                // a skipped decision must have had all K branches (otherwise inputs of the missing
                // branch, which were undefined, would now be defined)
                if node.children.iter().any(|c| c.is_none()) {
                    let missing: Vec<usize> = node.children.iter().enumerate().filter(|(_, c)| c.is_none()).map(|(l, _)| l).collect();
                    // only a violation if the missing side is reachable by a margin
                    let mut rows = closed(&pwl::path_rows(before, idx).map_err(Failure::new)?);
                    let pred = pwl::node_pred_rows(before, idx);
                    for l in missing {
                        let mut side = rows.clone();
                        for (i, r) in pred.iter().enumerate() {
                            side.push(if l & (1 << i) != 0 { r.clone() } else { Row::le(r.a.iter().map(|x| -x).collect(), -&r.b) });
                        }
                        if lp::has_ball_boxed(&side, n, &delta()) {
                            return Err(Failure::new(format!(
                                "{what} skipped decision {idx} whose branch {l} is missing (undefined inputs) and reachable: those inputs become defined"
                            )));
                        }
                    }
                    rows.clear();
                }
            }
        }
    }
    Ok((vanished_terms, skipped_decisions))
}
