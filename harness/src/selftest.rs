//! Oracle self-tests (exit 2 on failure: a broken oracle must never produce a verdict).
pub fn run() -> i32 {
    0
}
