//! Oracle self-tests.  A broken oracle must never produce a verdict: any failure here ends the
//! process with exit code 2 before a property is judged.

use crate::exact::{AffQ, Q};
use crate::gen_tree::*;
use crate::lp::{self, LpResult, Opt, Row};
use crate::pwl::{equiv, EquivMode, Ref};
use proptest::strategy::{Strategy, ValueTree};
use proptest::test_runner::{Config, RngAlgorithm, TestRng, TestRunner};

fn q(v: &[i64]) -> Vec<Q> {
    v.iter().map(|x| Q::int(*x)).collect()
}

struct Lcg(u64);
impl Lcg {
    fn next(&mut self) -> u64 {
        self.0 = self.0.wrapping_mul(6364136223846793005).wrapping_add(1442695040888963407);
        self.0 >> 33
    }
    fn small(&mut self) -> i64 {
        (self.next() % 9) as i64 - 4
    }
}

fn lp_selftest() -> Result<(), String> {
    // hand-checked systems (the last three mirror the repository's scipy-checked tests)
    let sq = vec![Row::le(q(&[1, 0]), Q::int(1)), Row::le(q(&[-1, 0]), Q::int(0)), Row::le(q(&[0, 1]), Q::int(1)), Row::le(q(&[0, -1]), Q::int(0))];
    match lp::minimize(&sq, 2, &q(&[-1, -1])) {
        Opt::Val(v, _) if v == Q::int(-2) => {}
        o => return Err(format!("unit square optimum wrong: {o:?}")),
    }
    if lp::full_dim(&sq, 2).is_none() || !lp::has_ball(&sq, 2, &Q::frac(1, 4)) || lp::has_ball(&sq, 2, &Q::frac(3, 4)) {
        return Err("unit square ball tests wrong".into());
    }
    let seg = vec![Row::le(q(&[1, 0]), Q::int(1)), Row::le(q(&[-1, 0]), Q::int(-1))];
    if lp::feasible_closed(&seg, 2).is_none() || lp::full_dim(&seg, 2).is_some() {
        return Err("lower-dimensional set misjudged".into());
    }
    let empty = vec![Row::le(q(&[1]), Q::int(0)), Row::le(q(&[-1]), Q::int(-1))];
    if lp::feasible_closed(&empty, 1).is_some() {
        return Err("empty set judged feasible".into());
    }
    if !matches!(lp::minimize(&[Row::le(q(&[1, 0]), Q::int(1))], 2, &q(&[0, 1])), Opt::Unbounded) {
        return Err("unbounded LP misjudged".into());
    }
    match lp::minimize(&[Row::le(q(&[1, 0]), Q::int(1))], 2, &q(&[-1, 0])) {
        Opt::Val(v, _) if v == Q::int(-1) => {}
        o => return Err(format!("finite optimum on an unbounded face misjudged: {o:?}")),
    }
    // strict rows
    if lp::nonempty_exact(&[Row::le(q(&[1]), Q::int(0)), Row::lt(q(&[-1]), Q::int(0))], 1).is_some() {
        return Err("x <= 0 and x > 0 judged non-empty".into());
    }
    if lp::nonempty_exact(&[Row::lt(q(&[0]), Q::int(0))], 1).is_some() || lp::nonempty_exact(&[Row::le(q(&[0]), Q::int(0))], 1).is_none() {
        return Err("zero rows misjudged".into());
    }
    // 300 pseudo-random systems: certificates are checked inside solve(); cross-check derived facts
    let mut g = Lcg(12345);
    for _ in 0..600 {
        let n = 1 + (g.next() % 4) as usize;
        let m = (g.next() % 9) as usize;
        let a: Vec<Vec<Q>> = (0..m).map(|_| (0..n).map(|_| Q::int(g.small())).collect()).collect();
        let b: Vec<Q> = (0..m).map(|_| Q::int(g.small())).collect();
        let c: Vec<Q> = (0..n).map(|_| Q::int(g.small())).collect();
        let r1 = lp::solve(&a, &b, &c);
        // primal and dual simplex must agree (both answers are certificate-checked on their own)
        let rp = lp::solve_inner(&a, &b, &c);
        let rd = lp::solve_dual(&a, &b, &c);
        for r in [&rp, &rd] {
            lp::check_certificate(&a, &b, &c, r).map_err(|e| format!("certificate rejected in self-test: {e}"))?;
        }
        let same = match (&rp, &rd) {
            (LpResult::Infeasible { .. }, LpResult::Infeasible { .. }) => true,
            (LpResult::Unbounded { .. }, LpResult::Unbounded { .. }) => true,
            (LpResult::Optimal { value: v1, .. }, LpResult::Optimal { value: v2, .. }) => v1 == v2,
            _ => false,
        };
        if !same {
            return Err(format!("primal and dual simplex disagree: {rp:?} vs {rd:?}"));
        }
        let neg: Vec<Q> = c.iter().map(|x| -x).collect();
        let rows: Vec<Row> = a.iter().zip(&b).map(|(r, bb)| Row::le(r.clone(), bb.clone())).collect();
        let feas = lp::feasible_closed(&rows, n).is_some();
        if feas == matches!(r1, LpResult::Infeasible { .. }) {
            return Err("feasibility and optimisation disagree".into());
        }
        if lp::full_dim(&rows, n).is_some() && !feas {
            return Err("full-dimensional but infeasible".into());
        }
        if let (Opt::Val(v1, _), Opt::Val(v2, _)) = (lp::minimize(&rows, n, &c), lp::maximize(&rows, n, &neg)) {
            if v1 != -v2 {
                return Err("min c != -max -c".into());
            }
        }
    }
    Ok(())
}

fn equiv_selftest() -> Result<(), String> {
    // trees from the generator with a fixed seed: spec -> library tree -> cell model must be
    // equivalent to the spec's own reference; a mutated reference must be rejected
    let cfg = Config { failure_persistence: None, ..Config::default() };
    let mut runner = TestRunner::new_with_rng(cfg, TestRng::from_seed(RngAlgorithm::ChaCha, &[7u8; 32]));
    let mut rejected = 0;
    let mut accepted = 0;
    for (k, depth) in [(2usize, 2u32), (2, 3), (4, 2)].iter().cycle().take(60) {
        let p = TreeParams { k: *k, in_dim: 2, out_dim: 2, max_depth: *depth, present_pct: 85, pool_pct: 40 };
        let spec = tree_spec(p).new_tree(&mut runner).map_err(|e| format!("generator failed: {e}"))?.current();
        let rn = spec.resolve(&[]);
        let reference = rn.to_ref();
        let model = if *k == 2 { Ref::from_afftree(&rn.build::<2>(&spec.order, &spec.junk)) } else { Ref::from_afftree(&rn.build::<4>(&spec.order, &spec.junk)) };
        if let Err(m) = equiv(&model, &reference, 2, &EquivMode::exact()) {
            return Err(format!("cell model of a built tree differs from its specification at {:?}", m.point));
        }
        if equiv(&reference, &model, 2, &EquivMode::exact()).is_err() {
            return Err("equiv is not symmetric on equal functions".into());
        }
        accepted += 1;
        // mutate: add 1 to the bias of every defined leaf -> must be rejected iff some defined
        // leaf has a full-dimensional region
        let mutated = reference.map_leaves(&|l: &AffQ| {
            let mut l2 = l.clone();
            l2.bias[0] = &l2.bias[0] + &Q::one();
            Ref::leaf(l2)
        });
        let has_defined_cell = reference.cells().iter().any(|c| c.val.is_some() && lp::full_dim(&c.rows, 2).is_some());
        let r = equiv(&model, &mutated, 2, &EquivMode::exact());
        if has_defined_cell {
            if r.is_ok() {
                return Err("equiv accepted a reference whose every leaf was shifted".into());
            }
            rejected += 1;
        }
        // undefined vs defined must be rejected as well
        let undefined = reference.map_leaves(&|_| Ref::undef());
        if has_defined_cell && equiv(&model, &undefined, 2, &EquivMode::exact()).is_ok() {
            return Err("equiv accepted 'undefined everywhere' for a function with a defined cell".into());
        }
    }
    if rejected < 20 || accepted < 60 {
        return Err(format!("self-test too weak: {accepted} accepted, {rejected} rejected"));
    }
    Ok(())
}

fn exact_selftest() -> Result<(), String> {
    for x in [0.0, -0.0, 1.0, -1.5, 0.1, 1e300, 1e-300, 123456.789, -2.5e-7, f64::MIN_POSITIVE, 1.0 / 6.0] {
        if Q::from_f64(x).to_f64() != x {
            return Err(format!("f64 -> Q -> f64 round trip failed for {x}"));
        }
    }
    let third = Q::frac(1, 3);
    if &(&third + &third) + &third != Q::one() {
        return Err("1/3 + 1/3 + 1/3 != 1".into());
    }
    let big = Q::from_f64(1e200);
    if &(&big * &big) / &big != big {
        return Err("big rational arithmetic wrong".into());
    }
    if Q::from_f64(0.1).is_exact_f64() != true || Q::frac(1, 3).is_exact_f64() {
        return Err("dyadic test wrong".into());
    }
    Ok(())
}

pub fn run_quiet() -> Result<(), String> {
    exact_selftest()?;
    lp_selftest()?;
    Ok(())
}

pub fn run() -> i32 {
    crate::runner::install_quiet_panic_hook();
    let r = std::panic::catch_unwind(|| -> Result<(), String> {
        exact_selftest()?;
        lp_selftest()?;
        equiv_selftest()?;
        Ok(())
    });
    match r {
        Ok(Ok(())) => {
            println!("selftest ok");
            0
        }
        Ok(Err(e)) => {
            eprintln!("SELFTEST-FAILED: {e}");
            2
        }
        Err(_) => {
            eprintln!("SELFTEST-FAILED: panic");
            2
        }
    }
}
