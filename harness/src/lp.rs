//! Exact linear programming over `Q` with certificates.
//!
//! `solve` = two-phase tableau simplex with Bland's rule on `min c.x s.t. A x <= b` (x free).
//! Every answer carries a certificate that `check_certificate` re-validates with plain
//! matrix-vector arithmetic; a failed certificate is an *oracle error* (panic with a marked
//! message, reported as exit code 2), never a property violation.

use crate::exact::{norm1, qdot, QVec, Q};
use std::cell::Cell;

thread_local! {
    pub static LP_CALLS: Cell<u64> = Cell::new(0);
    pub static CERTS: Cell<u64> = Cell::new(0);
    /// centre of the box |x - c|_inf <= 1e6 inside which regions are judged (None = the origin); set per case by
    /// generators that place their data far from the origin, reset by the runner before every case
    static BOX_CENTER: std::cell::RefCell<Option<QVec>> = std::cell::RefCell::new(None);
}

pub fn set_box_center(c: Option<QVec>) {
    BOX_CENTER.with(|b| *b.borrow_mut() = c);
}

fn box_rows(n: usize) -> Vec<Row> {
    let r = Q::int(1_000_000);
    let c: QVec = BOX_CENTER.with(|b| b.borrow().clone()).filter(|c| c.len() == n).unwrap_or_else(|| vec![Q::zero(); n]);
    let mut out = Vec::with_capacity(2 * n);
    for j in 0..n {
        let mut e = vec![Q::zero(); n];
        e[j] = Q::one();
        out.push(Row::le(e.clone(), &c[j] + &r));
        e[j] = Q::int(-1);
        out.push(Row::le(e, &r - &c[j]));
    }
    out
}

fn in_box(x: &[Q]) -> bool {
    let r = Q::int(1_000_000);
    let n = x.len();
    let c: QVec = BOX_CENTER.with(|b| b.borrow().clone()).filter(|c| c.len() == n).unwrap_or_else(|| vec![Q::zero(); n]);
    x.iter().zip(&c).all(|(v, cj)| (v - cj).abs() < r)
}

pub const ORACLE_ERR: &str = "ORACLE-ERROR";

#[derive(Clone, Debug)]
pub enum LpResult {
    Infeasible { farkas: QVec },
    Unbounded { x: QVec, ray: QVec },
    Optimal { x: QVec, dual: QVec, value: Q },
}

pub fn check_certificate(a: &[QVec], b: &[Q], c: &[Q], r: &LpResult) -> Result<(), String> {
    let m = a.len();
    let n = c.len();
    let feas = |x: &QVec| -> Result<(), String> {
        if x.len() != n {
            return Err("x has wrong length".into());
        }
        for i in 0..m {
            if qdot(&a[i], x) > b[i] {
                return Err(format!("primal infeasible in row {i}"));
            }
        }
        Ok(())
    };
    let at_y = |y: &QVec| -> QVec {
        (0..n)
            .map(|j| {
                let mut s = Q::zero();
                for i in 0..m {
                    if !y[i].is_zero() && !a[i][j].is_zero() {
                        s = &s + &(&y[i] * &a[i][j]);
                    }
                }
                s
            })
            .collect()
    };
    match r {
        LpResult::Infeasible { farkas } => {
            if farkas.len() != m {
                return Err("farkas length".into());
            }
            if farkas.iter().any(|y| y.is_neg()) {
                return Err("farkas negative".into());
            }
            if at_y(farkas).iter().any(|v| !v.is_zero()) {
                return Err("farkas A^T y != 0".into());
            }
            if !qdot(b, farkas).is_neg() {
                return Err("farkas b.y >= 0".into());
            }
            Ok(())
        }
        LpResult::Unbounded { x, ray } => {
            feas(x)?;
            if ray.len() != n {
                return Err("ray length".into());
            }
            for i in 0..m {
                if qdot(&a[i], ray).is_pos() {
                    return Err(format!("ray leaves row {i}"));
                }
            }
            if !qdot(c, ray).is_neg() {
                return Err("ray does not improve".into());
            }
            Ok(())
        }
        LpResult::Optimal { x, dual, value } => {
            feas(x)?;
            if dual.len() != m {
                return Err("dual length".into());
            }
            if dual.iter().any(|y| y.is_neg()) {
                return Err("dual negative".into());
            }
            let aty = at_y(dual);
            for j in 0..n {
                if &aty[j] + &c[j] != Q::zero() {
                    return Err(format!("dual A^T y != -c at {j}"));
                }
            }
            let pv = qdot(c, x);
            if &pv != value {
                return Err("value != c.x".into());
            }
            if pv != -qdot(b, dual) {
                return Err("duality gap".into());
            }
            Ok(())
        }
    }
}

fn pivot(t: &mut [QVec], objs: &mut [&mut QVec], p: usize, q: usize) {
    let w = t[p].len();
    let piv = t[p][q].clone();
    debug_assert!(!piv.is_zero());
    if piv != Q::one() {
        let inv = piv.recip();
        for j in 0..w {
            if !t[p][j].is_zero() {
                t[p][j] = &t[p][j] * &inv;
            }
        }
    }
    let prow = t[p].clone();
    for (i, row) in t.iter_mut().enumerate() {
        if i == p || row[q].is_zero() {
            continue;
        }
        let f = row[q].clone();
        for j in 0..w {
            if !prow[j].is_zero() {
                row[j] = &row[j] - &(&f * &prow[j]);
            }
        }
    }
    for o in objs.iter_mut() {
        if o[q].is_zero() {
            continue;
        }
        let f = o[q].clone();
        for j in 0..w {
            if !prow[j].is_zero() {
                o[j] = &o[j] - &(&f * &prow[j]);
            }
        }
    }
}

/// min c.x  s.t.  A x <= b, x free.
pub fn solve(a: &[QVec], b: &[Q], c: &[Q]) -> LpResult {
    LP_CALLS.with(|k| k.set(k.get() + 1));
    // Equilibrate by exact powers of two: every row (and the objective) is divided by 2^k with
    // 2^k <= max |coefficient| < 2^(k+1).  The feasible set, the rays and the minimisers are unchanged
    // and the numbers stay small (rows scaled by 2^-36 next to rows scaled by 2^30 would otherwise push
    // every pivot into big-integer arithmetic).  The certificate is checked on the scaled system, which
    // is equivalent to the original one.
    let pow2 = |v: &[Q]| -> Q {
        let m = v.iter().map(|x| x.abs()).max().unwrap_or(Q::zero());
        if m.is_zero() {
            return Q::one();
        }
        let e = m.to_f64().log2().floor() as i32;
        if e == 0 || !(-1000..=1000).contains(&e) {
            return Q::one();
        }
        Q::from_f64(2f64.powi(-e))
    };
    let mut a2: Vec<QVec> = Vec::with_capacity(a.len());
    let mut b2: QVec = Vec::with_capacity(b.len());
    for (row, bb) in a.iter().zip(b) {
        let k = pow2(row);
        if k == Q::one() {
            a2.push(row.clone());
            b2.push(bb.clone());
        } else {
            a2.push(row.iter().map(|x| x * &k).collect());
            b2.push(bb * &k);
        }
    }
    let kc = pow2(c);
    let c2: QVec = if kc == Q::one() { c.to_vec() } else { c.iter().map(|x| x * &kc).collect() };
    let r = if a2.len() > c2.len() { solve_dual(&a2, &b2, &c2) } else { solve_inner(&a2, &b2, &c2) };
    if let Err(e) = check_certificate(&a2, &b2, &c2, &r) {
        panic!("{ORACLE_ERR}: LP certificate rejected: {e}\nA={a2:?}\nb={b2:?}\nc={c2:?}\nresult={r:?}");
    }
    CERTS.with(|k| k.set(k.get() + 1));
    match r {
        LpResult::Optimal { x, dual, .. } => {
            // value with respect to the caller's objective
            let value = qdot(c, &x);
            LpResult::Optimal { x, dual, value }
        }
        other => other,
    }
}

/// Same problem solved through its dual `min b.y s.t. A^T y = -c, y >= 0` (two-phase tableau, Bland's rule).
/// The tableau has n rows instead of m, which is much smaller for the path polyhedra met here (few
/// variables, many rows).  Primal solution = phase-2 multipliers, read off the artificial columns.
/// Like `solve_inner` its answers are only believed after `check_certificate`.
pub fn solve_dual(a: &[QVec], b: &[Q], c: &[Q]) -> LpResult {
    let m = a.len();
    let n = c.len();
    if m == 0 || n == 0 {
        return solve_inner(a, b, c);
    }
    // columns: y_0..y_{m-1}, art_0..art_{n-1}, rhs
    let ncols = m + n;
    let mut sign: Vec<bool> = Vec::with_capacity(n); // true = row multiplied by -1
    let mut t: Vec<QVec> = Vec::with_capacity(n);
    for k in 0..n {
        let d = -&c[k];
        let neg = d.is_neg();
        sign.push(neg);
        let mut row = vec![Q::zero(); ncols + 1];
        for i in 0..m {
            if !a[i][k].is_zero() {
                row[i] = if neg { -&a[i][k] } else { a[i][k].clone() };
            }
        }
        row[m + k] = Q::one();
        row[ncols] = if neg { -&d } else { d };
        t.push(row);
    }
    let mut basis: Vec<usize> = (0..n).map(|k| m + k).collect();
    let mut r2 = vec![Q::zero(); ncols + 1];
    for i in 0..m {
        r2[i] = b[i].clone();
    }
    let mut r1 = vec![Q::zero(); ncols + 1];
    for k in 0..n {
        for j in 0..m {
            if !t[k][j].is_zero() {
                r1[j] = &r1[j] - &t[k][j];
            }
        }
        r1[ncols] = &r1[ncols] - &t[k][ncols];
    }
    let ratio_row = |t: &Vec<QVec>, basis: &Vec<usize>, q: usize| -> Option<usize> {
        let mut best: Option<(usize, Q)> = None;
        for i in 0..n {
            if t[i][q].is_pos() {
                let ratio = &t[i][ncols] / &t[i][q];
                best = match best {
                    None => Some((i, ratio)),
                    Some((bi, br)) => {
                        if ratio < br || (ratio == br && basis[i] < basis[bi]) {
                            Some((i, ratio))
                        } else {
                            Some((bi, br))
                        }
                    }
                };
            }
        }
        best.map(|(i, _)| i)
    };
    // phase 1 (skipped when the artificial basis is already at value zero)
    if r1[ncols].is_neg() {
        loop {
            let q = match (0..m).find(|&j| r1[j].is_neg()) {
                Some(q) => q,
                None => break,
            };
            let p = ratio_row(&t, &basis, q).expect("phase 1 cannot be unbounded");
            pivot(&mut t, &mut [&mut r1, &mut r2], p, q);
            basis[p] = q;
        }
        if r1[ncols].is_neg() {
            // dual infeasible: w = phase-1 multipliers, A w <= 0 and c.w < 0
            let ray: QVec = (0..n)
                .map(|k| {
                    let w = &Q::one() - &r1[m + k];
                    if sign[k] {
                        -&w
                    } else {
                        w
                    }
                })
                .collect();
            // primal feasible?  (objective 0: the dual of that problem is trivially feasible)
            let zero = vec![Q::zero(); n];
            return match solve_dual(a, b, &zero) {
                LpResult::Infeasible { farkas } => LpResult::Infeasible { farkas },
                LpResult::Optimal { x, .. } | LpResult::Unbounded { x, .. } => LpResult::Unbounded { x, ray },
            };
        }
    }
    // drive artificials out of the basis (degenerate pivots; rows without a real entry are redundant)
    for i in 0..n {
        if basis[i] >= m {
            if let Some(q) = (0..m).find(|&j| !t[i][j].is_zero()) {
                pivot(&mut t, &mut [&mut r1, &mut r2], i, q);
                basis[i] = q;
            }
        }
    }
    // phase 2
    loop {
        let q = match (0..m).find(|&j| r2[j].is_neg()) {
            Some(q) => q,
            None => break,
        };
        let mut best: Option<(usize, Q)> = None;
        for i in 0..n {
            if basis[i] >= m {
                continue; // redundant zero row
            }
            if t[i][q].is_pos() {
                let ratio = &t[i][ncols] / &t[i][q];
                best = match best {
                    None => Some((i, ratio)),
                    Some((bi, br)) => {
                        if ratio < br || (ratio == br && basis[i] < basis[bi]) {
                            Some((i, ratio))
                        } else {
                            Some((bi, br))
                        }
                    }
                };
            }
        }
        match best {
            Some((p, _)) => {
                pivot(&mut t, &mut [&mut r2], p, q);
                basis[p] = q;
            }
            None => {
                // dual unbounded: y = e_q - sum t[i][q] e_basis(i) >= 0, A^T y = 0, b.y < 0
                let mut farkas = vec![Q::zero(); m];
                farkas[q] = Q::one();
                for i in 0..n {
                    if basis[i] < m && !t[i][q].is_zero() {
                        farkas[basis[i]] = -&t[i][q];
                    }
                }
                return LpResult::Infeasible { farkas };
            }
        }
    }
    let mut dual = vec![Q::zero(); m];
    for i in 0..n {
        if basis[i] < m {
            dual[basis[i]] = t[i][ncols].clone();
        }
    }
    let x: QVec = (0..n)
        .map(|k| {
            let pi = -&r2[m + k];
            if sign[k] {
                -&pi
            } else {
                pi
            }
        })
        .collect();
    let value = qdot(c, &x);
    LpResult::Optimal { x, dual, value }
}

pub fn solve_inner(a: &[QVec], b: &[Q], c: &[Q]) -> LpResult {
    let m = a.len();
    let n = c.len();
    for r in a {
        assert_eq!(r.len(), n);
    }
    assert_eq!(b.len(), m);
    if m == 0 {
        if c.iter().all(|x| x.is_zero()) {
            return LpResult::Optimal { x: vec![Q::zero(); n], dual: vec![], value: Q::zero() };
        }
        return LpResult::Unbounded {
            x: vec![Q::zero(); n],
            ray: c.iter().map(|x| -x).collect(),
        };
    }
    // columns: u_0..u_{n-1}, v_0..v_{n-1}, s_0..s_{m-1}, art (one per negative b)
    let neg_rows: Vec<usize> = (0..m).filter(|&i| b[i].is_neg()).collect();
    let n_art = neg_rows.len();
    let ncols = 2 * n + m + n_art;
    let art_base = 2 * n + m;
    let mut t: Vec<QVec> = Vec::with_capacity(m);
    let mut basis: Vec<usize> = vec![0; m];
    let mut art_of_row = vec![usize::MAX; m];
    for (k, &i) in neg_rows.iter().enumerate() {
        art_of_row[i] = art_base + k;
    }
    for i in 0..m {
        let neg = b[i].is_neg();
        let mut row = vec![Q::zero(); ncols + 1];
        for j in 0..n {
            if a[i][j].is_zero() {
                continue;
            }
            let v = if neg { -&a[i][j] } else { a[i][j].clone() };
            row[n + j] = -&v;
            row[j] = v;
        }
        row[2 * n + i] = if neg { Q::int(-1) } else { Q::one() };
        if neg {
            row[art_of_row[i]] = Q::one();
            basis[i] = art_of_row[i];
            row[ncols] = -&b[i];
        } else {
            basis[i] = 2 * n + i;
            row[ncols] = b[i].clone();
        }
        t.push(row);
    }
    // phase-2 objective row
    let mut r2 = vec![Q::zero(); ncols + 1];
    for j in 0..n {
        r2[j] = c[j].clone();
        r2[n + j] = -&c[j];
    }
    if n_art > 0 {
        let mut r1 = vec![Q::zero(); ncols + 1];
        for k in 0..n_art {
            r1[art_base + k] = Q::one();
        }
        for &i in &neg_rows {
            for j in 0..=ncols {
                if !t[i][j].is_zero() {
                    r1[j] = &r1[j] - &t[i][j];
                }
            }
        }
        loop {
            let q = match (0..art_base).find(|&j| r1[j].is_neg()) {
                Some(q) => q,
                None => break,
            };
            let mut best: Option<(usize, Q)> = None;
            for i in 0..m {
                if t[i][q].is_pos() {
                    let ratio = &t[i][ncols] / &t[i][q];
                    best = match best {
                        None => Some((i, ratio)),
                        Some((bi, br)) => {
                            if ratio < br || (ratio == br && basis[i] < basis[bi]) {
                                Some((i, ratio))
                            } else {
                                Some((bi, br))
                            }
                        }
                    };
                }
            }
            let (p, _) = best.expect("phase 1 cannot be unbounded");
            pivot(&mut t, &mut [&mut r1, &mut r2], p, q);
            basis[p] = q;
        }
        let z1 = -&r1[ncols];
        if z1.is_pos() {
            let farkas = (0..m).map(|i| r1[2 * n + i].clone()).collect();
            return LpResult::Infeasible { farkas };
        }
        // drive remaining artificials out of the basis
        for i in 0..m {
            if basis[i] >= art_base {
                if let Some(q) = (0..art_base).find(|&j| !t[i][j].is_zero()) {
                    pivot(&mut t, &mut [&mut r1, &mut r2], i, q);
                    basis[i] = q;
                }
            }
        }
    }
    // phase 2
    loop {
        let q = match (0..art_base).find(|&j| r2[j].is_neg()) {
            Some(q) => q,
            None => break,
        };
        let mut best: Option<(usize, Q)> = None;
        for i in 0..m {
            if basis[i] >= art_base {
                continue; // redundant zero row
            }
            if t[i][q].is_pos() {
                let ratio = &t[i][ncols] / &t[i][q];
                best = match best {
                    None => Some((i, ratio)),
                    Some((bi, br)) => {
                        if ratio < br || (ratio == br && basis[i] < basis[bi]) {
                            Some((i, ratio))
                        } else {
                            Some((bi, br))
                        }
                    }
                };
            }
        }
        match best {
            None => {
                // unbounded: direction
                let mut dv = vec![Q::zero(); ncols];
                dv[q] = Q::one();
                let mut xv = vec![Q::zero(); ncols];
                for i in 0..m {
                    if basis[i] < ncols {
                        dv[basis[i]] = -&t[i][q];
                        xv[basis[i]] = t[i][ncols].clone();
                    }
                }
                let x = (0..n).map(|j| &xv[j] - &xv[n + j]).collect();
                let ray = (0..n).map(|j| &dv[j] - &dv[n + j]).collect();
                return LpResult::Unbounded { x, ray };
            }
            Some((p, _)) => {
                pivot(&mut t, &mut [&mut r2], p, q);
                basis[p] = q;
            }
        }
    }
    let mut xv = vec![Q::zero(); ncols];
    for i in 0..m {
        xv[basis[i]] = t[i][ncols].clone();
    }
    let x: QVec = (0..n).map(|j| &xv[j] - &xv[n + j]).collect();
    let dual = (0..m).map(|i| r2[2 * n + i].clone()).collect();
    let value = qdot(c, &x);
    LpResult::Optimal { x, dual, value }
}

// ---------------------------------------------------------------------------------------------
// Half-spaces and derived predicates

#[derive(Clone, Debug, PartialEq, Eq)]
pub struct Row {
    pub a: QVec,
    pub b: Q,
    /// `a.x < b` if true, `a.x <= b` otherwise
    pub strict: bool,
}

impl Row {
    pub fn le(a: QVec, b: Q) -> Row {
        Row { a, b, strict: false }
    }
    pub fn lt(a: QVec, b: Q) -> Row {
        Row { a, b, strict: true }
    }
    /// complement half-space
    pub fn negated(&self) -> Row {
        Row { a: self.a.iter().map(|x| -x).collect(), b: -&self.b, strict: !self.strict }
    }
    pub fn holds(&self, x: &[Q]) -> bool {
        let v = qdot(&self.a, x);
        if self.strict {
            v < self.b
        } else {
            v <= self.b
        }
    }
    pub fn slack(&self, x: &[Q]) -> Q {
        &self.b - &qdot(&self.a, x)
    }
    pub fn is_zero_row(&self) -> bool {
        self.a.iter().all(|x| x.is_zero())
    }
    /// substitute x = M z + c  (self is over x, result over z)
    pub fn substitute(&self, f: &crate::exact::AffQ) -> Row {
        assert_eq!(self.a.len(), f.outdim());
        let n = f.indim;
        let mut a = vec![Q::zero(); n];
        for (k, ak) in self.a.iter().enumerate() {
            if ak.is_zero() {
                continue;
            }
            for j in 0..n {
                if !f.mat[k][j].is_zero() {
                    a[j] = &a[j] + &(ak * &f.mat[k][j]);
                }
            }
        }
        let b = &self.b - &qdot(&self.a, &f.bias);
        Row { a, b, strict: self.strict }
    }
}

/// Removes zero rows; returns None if one of them is false (set empty).
/// A zero row is `0 <= b` (true iff b >= 0) or `0 < b` (true iff b > 0); either way the set it
/// describes is everything or nothing, so the same test serves closure semantics.
fn prefilter(rows: &[Row]) -> Option<Vec<&Row>> {
    let mut out = Vec::with_capacity(rows.len());
    for r in rows {
        if r.is_zero_row() {
            let ok = if r.strict { r.b.is_pos() } else { !r.b.is_neg() };
            if !ok {
                return None;
            }
        } else {
            out.push(r);
        }
    }
    Some(out)
}

#[derive(Clone, Debug)]
pub enum Slack {
    Empty,
    /// best t (<= 1) and a maximiser
    Val(Q, QVec),
}

/// maximise t <= 1 subject to a_i.x + [sel(i)] t <= b_i
fn max_t(rows: &[&Row], n: usize, sel: impl Fn(&Row) -> bool) -> Slack {
    let mut a: Vec<QVec> = Vec::with_capacity(rows.len() + 1);
    let mut b: QVec = Vec::with_capacity(rows.len() + 1);
    for r in rows {
        let mut row = r.a.clone();
        row.push(if sel(r) { Q::one() } else { Q::zero() });
        a.push(row);
        b.push(r.b.clone());
    }
    let mut last = vec![Q::zero(); n + 1];
    last[n] = Q::one();
    a.push(last);
    b.push(Q::one());
    let mut c = vec![Q::zero(); n + 1];
    c[n] = Q::int(-1);
    match solve(&a, &b, &c) {
        LpResult::Infeasible { .. } => Slack::Empty,
        LpResult::Optimal { x, .. } => {
            let t = x[n].clone();
            Slack::Val(t, x[..n].to_vec())
        }
        LpResult::Unbounded { .. } => panic!("{ORACLE_ERR}: bounded slack LP reported unbounded"),
    }
}

/// A point of the closed set, if any.
pub fn feasible_closed(rows: &[Row], n: usize) -> Option<QVec> {
    let rs = prefilter(rows)?;
    let a: Vec<QVec> = rs.iter().map(|r| r.a.clone()).collect();
    let b: QVec = rs.iter().map(|r| r.b.clone()).collect();
    match solve(&a, &b, &vec![Q::zero(); n]) {
        LpResult::Infeasible { .. } => None,
        LpResult::Optimal { x, .. } => Some(x),
        LpResult::Unbounded { x, .. } => Some(x),
    }
}

/// Interior (of the closure) non-empty?  Returns an interior point.
pub fn full_dim(rows: &[Row], n: usize) -> Option<QVec> {
    let rs = prefilter(rows)?;
    match max_t(&rs, n, |_| true) {
        Slack::Empty => None,
        Slack::Val(t, x) => {
            if t.is_pos() {
                Some(x)
            } else {
                None
            }
        }
    }
}

/// Exact non-emptiness honouring strict rows.  Returns a member.
pub fn nonempty_exact(rows: &[Row], n: usize) -> Option<QVec> {
    let rs = prefilter(rows)?;
    if rs.iter().all(|r| !r.strict) {
        let owned: Vec<Row> = rs.into_iter().cloned().collect();
        return feasible_closed(&owned, n);
    }
    match max_t(&rs, n, |r| r.strict) {
        Slack::Empty => None,
        Slack::Val(t, x) => {
            if t.is_pos() {
                Some(x)
            } else {
                None
            }
        }
    }
}

/// Sufficient condition for containing a Euclidean ball of radius `delta`
/// (uses the 1-norm, which dominates the 2-norm).
pub fn has_ball(rows: &[Row], n: usize, delta: &Q) -> bool {
    let rs = match prefilter(rows) {
        Some(r) => r,
        None => return false,
    };
    let shrunk: Vec<Row> = rs
        .iter()
        .map(|r| Row::le(r.a.clone(), &r.b - &(delta * &norm1(&r.a))))
        .collect();
    feasible_closed(&shrunk, n).is_some()
}

/// `full_dim` restricted to the box |x|_inf <= 1e6 (see `has_ball_boxed`).
pub fn full_dim_boxed(rows: &[Row], n: usize) -> Option<QVec> {
    // cheaper first: without the box rows; an interior point that happens to lie strictly inside the box
    // settles the question, no interior at all settles it too
    match full_dim(rows, n) {
        None => return None,
        Some(x) => {
            if in_box(&x) {
                return Some(x);
            }
        }
    }
    let mut all: Vec<Row> = rows.to_vec();
    all.extend(box_rows(n));
    full_dim(&all, n)
}

/// `has_ball` restricted to the box |x|_inf <= 1e6.  With rounded coefficients two almost parallel
/// hyperplanes can enclose a region that exists only at coordinates ~1e16; such a region is not
/// "reachable by a margin" in any meaningful floating-point sense, so demands of the form "the
/// library must keep / must report feasible" are made inside the box only.
pub fn has_ball_boxed(rows: &[Row], n: usize, delta: &Q) -> bool {
    let mut all: Vec<Row> = rows.to_vec();
    all.extend(box_rows(n));
    has_ball(&all, n, delta)
}

#[derive(Clone, Debug)]
pub enum Opt {
    Empty,
    Unbounded,
    Val(Q, QVec),
}

/// minimise c.x over the closed set
pub fn minimize(rows: &[Row], _n: usize, c: &[Q]) -> Opt {
    let rs = match prefilter(rows) {
        Some(r) => r,
        None => return Opt::Empty,
    };
    let a: Vec<QVec> = rs.iter().map(|r| r.a.clone()).collect();
    let b: QVec = rs.iter().map(|r| r.b.clone()).collect();
    match solve(&a, &b, c) {
        LpResult::Infeasible { .. } => Opt::Empty,
        LpResult::Unbounded { .. } => Opt::Unbounded,
        LpResult::Optimal { x, value, .. } => Opt::Val(value, x),
    }
}

pub fn maximize(rows: &[Row], n: usize, c: &[Q]) -> Opt {
    let neg: QVec = c.iter().map(|x| -x).collect();
    match minimize(rows, n, &neg) {
        Opt::Val(v, x) => Opt::Val(-v, x),
        o => o,
    }
}

/// Is the closed set `rows` contained in the closed half-space `a.x <= b`?
pub fn implies(rows: &[Row], n: usize, a: &[Q], b: &Q) -> bool {
    match maximize(rows, n, a) {
        Opt::Empty => true,
        Opt::Unbounded => false,
        Opt::Val(v, _) => &v <= b,
    }
}

/// Snap an interior point to a dyadic grid while staying strictly inside all rows.
pub fn snap_interior(rows: &[Row], x: &QVec) -> QVec {
    let inside = |p: &QVec| rows.iter().all(|r| r.is_zero_row() || r.slack(p).is_pos());
    for k in [0u32, 1, 2, 3, 4, 6, 8, 10, 12, 16, 20, 24, 30] {
        let scale = Q::int(1i64 << k);
        let p: QVec = x
            .iter()
            .map(|v| {
                let s = v * &scale;
                // round to nearest integer
                let f = s.to_f64().round();
                &Q::from_f64(f) / &scale
            })
            .collect();
        if inside(&p) {
            return p;
        }
    }
    x.clone()
}

pub fn interior_point(rows: &[Row], n: usize) -> Option<QVec> {
    let x = full_dim(rows, n)?;
    Some(snap_interior(rows, &x))
}

#[cfg(test)]
mod tests {
    use super::*;
    fn q(v: &[i64]) -> QVec {
        v.iter().map(|x| Q::int(*x)).collect()
    }
    #[test]
    fn basic() {
        // box 0<=x<=1, 0<=y<=1, min -x-y
        let a = vec![q(&[1, 0]), q(&[-1, 0]), q(&[0, 1]), q(&[0, -1])];
        let b = q(&[1, 0, 1, 0]);
        match solve(&a, &b, &q(&[-1, -1])) {
            LpResult::Optimal { value, .. } => assert_eq!(value, Q::int(-2)),
            r => panic!("{r:?}"),
        }
        // infeasible x<=0, x>=1
        let a = vec![q(&[1]), q(&[-1])];
        let b = q(&[0, -1]);
        assert!(matches!(solve(&a, &b, &q(&[0])), LpResult::Infeasible { .. }));
        // unbounded
        let a = vec![q(&[1, 0])];
        let b = q(&[1]);
        assert!(matches!(solve(&a, &b, &q(&[0, 1])), LpResult::Unbounded { .. }));
        // finite optimum on an unbounded face (F9 shape)
        match solve(&a, &b, &q(&[-1, 0])) {
            LpResult::Optimal { value, .. } => assert_eq!(value, Q::int(-1)),
            r => panic!("{r:?}"),
        }
        // lower-dimensional: x<=1, x>=1
        let rows = vec![Row::le(q(&[1, 0]), Q::int(1)), Row::le(q(&[-1, 0]), Q::int(-1))];
        assert!(feasible_closed(&rows, 2).is_some());
        assert!(full_dim(&rows, 2).is_none());
        let rows2 = vec![Row::le(q(&[1, 0]), Q::int(1)), Row::lt(q(&[-1, 0]), Q::int(-1))];
        assert!(nonempty_exact(&rows2, 2).is_none());
        let rows3 = vec![Row::le(q(&[1, 0]), Q::int(1)), Row::lt(q(&[-1, 0]), Q::int(0))];
        assert!(nonempty_exact(&rows3, 2).is_some());
        assert!(full_dim(&rows3, 2).is_some());
    }
}

/// Rows relaxed by a margin; a system that is still infeasible after this relaxation is "infeasible by
/// a margin".  Row i is relaxed by a geometric part `delta * (1 + |a_i|_1)` (delta = 1e-6: two orders above the
/// solver's 1e-8) plus a magnitude part `delta/1000 * (|b_i| + |a_i|_inf * M)`, where `M = max_k |b_k| / |a_k|_inf`
/// is the largest bias of the row-equilibrated system: a floating-point LP works on all rows at once, so its
/// absolute accuracy is limited by the largest numbers it holds (1e-9 relative is seven orders above the unit
/// roundoff).  A gap of 10 between `t <= 1.6e9` and `t >= 1.6e9 + 10` is therefore "by a margin" (relaxation 3.2),
/// a gap of 1/56 next to a row with bias 1e16 is not.
pub fn relaxed(rows: &[Row], delta: &Q) -> Vec<Row> {
    let inf = |r: &Row| r.a.iter().map(|v| v.abs()).max().unwrap_or(Q::zero());
    let mut big = Q::zero();
    for r in rows {
        let m = inf(r);
        if !m.is_zero() {
            let v = &r.b.abs() / &m;
            if v > big {
                big = v;
            }
        }
    }
    rows.iter()
        .map(|r| {
            let geometric = &Q::one() + &norm1(&r.a);
            let magnitude = &r.b.abs() + &(&inf(r) * &big);
            let rho = delta * &Q::frac(1, 1000);
            Row::le(r.a.clone(), &(&r.b + &(delta * &geometric)) + &(&rho * &magnitude))
        })
        .collect()
}

pub fn infeasible_by_margin(rows: &[Row], n: usize, delta: &Q) -> bool {
    feasible_closed(&relaxed(rows, delta), n).is_none()
}
