use vharness::hist::*;
fn main() {
    let path = std::env::args().nth(1).unwrap();
    let v: serde_json::Value = serde_json::from_str(&std::fs::read_to_string(path).unwrap()).unwrap();
    let mut h: History = serde_json::from_value(v["case"].clone()).unwrap();
    if std::env::args().nth(2).as_deref() == Some("c06") {
        // replicate C06 preprocessing
        vharness::props::c06::make_total_pub(&mut h);
        h.ops.push(HOp::Eliminate);
    }
    let mut st = init(&h).unwrap();
    println!("INIT\n{}", st.t);
    for (i, op) in h.ops.iter().enumerate() {
        let info = step(&mut st, op).unwrap();
        println!("STEP {i} {}\n{}", info.desc, st.t);
        if matches!(op, HOp::Eliminate) {
            for idx in [4usize, 13, 15] {
                if !st.t.tree.contains(idx) { continue; }
                let rows = vharness::pwl::closed(&vharness::pwl::path_rows(&st.t, idx).unwrap());
                println!("node {idx}: exact closed feasible: {:?} full_dim {:?}", vharness::lp::feasible_closed(&rows, st.in_dim).map(|x| x.iter().map(|q| q.to_f64()).collect::<Vec<_>>()), vharness::lp::full_dim(&rows, st.in_dim).is_some());
                let a: Vec<Vec<f64>> = rows.iter().map(|r| r.a.iter().map(|q| q.to_f64()).collect()).collect();
                let b: Vec<f64> = rows.iter().map(|r| r.b.to_f64()).collect();
                println!("rows {a:?} <= {b:?}");
                let mut m = ndarray::Array2::<f64>::zeros((a.len(), st.in_dim));
                for i in 0..a.len() { for j in 0..st.in_dim { m[[i,j]] = a[i][j]; } }
                let p = affinitree::linalg::affine::Polytope::from_mats(m, ndarray::Array1::from_vec(b));
                let s = p.status();
                println!("lib status {:?}", s);
                if let affinitree::linalg::polyhedron::PolytopeStatus::Optimal(x) = s { println!("contains {} dist {:?}", p.contains(&x), p.distance_raw(&x)); }
            }
        }
        for (idx, n) in st.t.tree.node_iter() {
            println!("  node {idx} state {:?}", match &n.value.state { affinitree::pwl::node::NodeState::Indeterminate => "indet".to_string(), affinitree::pwl::node::NodeState::Infeasible => "INFEASIBLE".to_string(), affinitree::pwl::node::NodeState::Feasible => "feasible".to_string(), affinitree::pwl::node::NodeState::FeasibleWitness(w) => format!("wit {:?}", w.iter().map(|x| x.to_vec()).collect::<Vec<_>>()) });
        }
    }
}
// (appended helper is unused)
