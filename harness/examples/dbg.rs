use affinitree::distill::schema::*;
use affinitree::linalg::affine::AffFunc;
use affinitree::pwl::afftree::AffTree;
use ndarray::{arr1, arr2};
fn main() {
    let mut t = AffTree::<2>::new(2);
    t.apply_func(&AffFunc::from_mats(arr2(&[[-6.0, 1.0]]), arr1(&[0.0])));
    t.compose::<true, false>(&partial_hard_sigmoid(1, 0));
    println!("{:?}", t);
    t.compose::<false, false>(&partial_hard_tanh(1, 0, -1.0, -1.0));
    println!("{:?}", t);
    let c = t.infeasible_elimination();
    println!("{:?}\n{}", t, c);
}
