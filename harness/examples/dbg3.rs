use affinitree::linalg::polyhedron::verif_hook as hook;
use std::collections::BTreeMap;
use vharness::hist::*;
fn show(st: &HState) {
    println!("{}", st.t);
    for (idx, n) in st.t.tree.node_iter() {
        println!("  node {idx} parent {:?} state {}", n.parent, match &n.value.state { affinitree::pwl::node::NodeState::Indeterminate => "indet".to_string(), affinitree::pwl::node::NodeState::Infeasible => "INFEASIBLE".to_string(), affinitree::pwl::node::NodeState::Feasible => "feasible".to_string(), affinitree::pwl::node::NodeState::FeasibleWitness(w) => format!("wit {:?}", w.iter().map(|x| x.to_vec()).collect::<Vec<_>>()) });
    }
}
fn main() {
    let path = std::env::args().nth(1).unwrap();
    let v: serde_json::Value = serde_json::from_str(&std::fs::read_to_string(path).unwrap()).unwrap();
    let c: vharness::props::c11::Case = serde_json::from_value(v["case"].clone()).unwrap();
    let mut st = init(&c.base).unwrap();
    for op in &c.base.ops { let i = step(&mut st, op).unwrap(); println!("BASE {}", i.desc); }
    println!("BEFORE"); show(&st);
    let mk = |st: &HState| HState { t: st.t.clone(), r: st.r.clone(), in_dim: st.in_dim, out_dim: st.out_dim, anchors: st.anchors.clone(), tracking: st.tracking };
    hook::reset(); hook::set_plan(BTreeMap::new());
    let mut a = mk(&st); step(&mut a, &c.op).unwrap(); println!("FAULT-FREE calls={}", hook::calls()); println!("{:?}", hook::take_log()); show(&a);
    let plan: BTreeMap<usize, hook::Fault> = BTreeMap::from([(1usize, hook::Fault::Error("x".into()))]);
    hook::reset(); hook::set_plan(plan);
    let mut b = mk(&st); step(&mut b, &c.op).unwrap(); println!("FAULTED calls={}", hook::calls()); println!("{:?}", hook::take_log()); show(&b);
}
