#![no_main]
// Coverage-guided driver for property C07: bytes are decoded by vharness::fuzzing (total decoder, no
// rejection) into the check's own case type; the oracle is the check's run().
use libfuzzer_sys::fuzz_target;
use vharness::props::c07::C07;

fuzz_target!(|data: &[u8]| {
    vharness::fuzzing::fuzz_case(&C07, data);
});
