#![no_main]
// Coverage-guided driver for property C06: bytes are decoded by vharness::fuzzing (total decoder, no
// rejection) into the check's own case type; the oracle is the check's run().
use libfuzzer_sys::fuzz_target;
use vharness::props::c06::C06;

fuzz_target!(|data: &[u8]| {
    vharness::fuzzing::fuzz_case_with(&C06, data, |d| vharness::fuzzing::decode_history(d, true));
});
