#!/bin/bash
# Offline build of the harness (and nothing else is needed for the quick tier).
set -e
ROOT="$(cd "$(dirname "$0")" && pwd)"
cd "$ROOT/harness"
export CARGO_NET_OFFLINE=true
cargo build --release 2>&1 | tail -n 3
"$ROOT/harness/target/release/vcheck" --selftest
