#!/bin/bash
# for `vp run --with-repo -- tools/run_mutants_bg.sh [filter]`: mutant matrix on the repo snapshot
ROOT="$(cd "$(dirname "$0")/.." && pwd)"
cd "$ROOT"
REPO="${VP_RUN_REPO:?needs --with-repo}"
sed -i "s|path = \"/repo\"|path = \"$REPO\"|" harness/Cargo.toml
cp /repo/Cargo.lock "$REPO/Cargo.lock" 2>/dev/null
cp /repo/Cargo.lock harness/Cargo.lock
export VERIF_ROOT="$ROOT"
( cd harness && CARGO_NET_OFFLINE=true cargo build --release 2>&1 | tail -1 )
python3 tools/mutants.py "$REPO" "$ROOT" "${1:-}"
