#!/bin/bash
# usage: tools/confirm_seed.sh <WT_DIR> <NAME> <ID...>
# Confirms a seeded change delivered in <WT_DIR>/SEED (patch.diff, seed_demo.rs, notes.md):
#   1. patch applies to a clean checkout, 2. the repository test suite passes with it,
#   3. the demo fails with it, 4. the demo passes without it;  then stores it under /verif/seeded/<NAME>/
#   and runs the given checks against it in /repo (restoring /repo afterwards).
set -u
WT="$1"; NAME="$2"; shift 2; SEEDROOT="${SEEDROOT:-/verif/seeded}"
export CARGO_NET_OFFLINE=true
cd "$WT" || exit 2
git checkout -q -- . 2>/dev/null; rm -f tests/seed_demo.rs
git apply --check SEED/patch.diff || { echo "PATCH DOES NOT APPLY"; exit 1; }
cp SEED/seed_demo.rs tests/seed_demo.rs
echo "--- demo WITHOUT the change"
RUSTFLAGS="${DEMO_RUSTFLAGS:-}" CARGO_TARGET_DIR="${DEMO_TARGET:-target}" cargo test --offline --test seed_demo 2>&1 | grep -E "^test result|error(\[|:)" | head -3
R0=${PIPESTATUS[0]}
git apply SEED/patch.diff
echo "--- demo WITH the change"
RUSTFLAGS="${DEMO_RUSTFLAGS:-}" CARGO_TARGET_DIR="${DEMO_TARGET:-target}" cargo test --offline --test seed_demo 2>&1 | grep -E "^test result|error(\[|:)" | head -3
echo "--- repository suite WITH the change (demo excluded)"
rm -f tests/seed_demo.rs
cargo test --workspace --no-fail-fast --offline 2>&1 | grep -E "^test result|FAILED|failed" | head -8
git checkout -q -- .
mkdir -p $SEEDROOT/$NAME
cp SEED/patch.diff SEED/seed_demo.rs SEED/notes.md $SEEDROOT/$NAME/ 2>/dev/null
echo "--- checks against the change"
cd /verif && tools/try_patch.sh $SEEDROOT/$NAME/patch.diff "$@"
