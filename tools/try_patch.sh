#!/bin/bash
# usage: tools/try_patch.sh <patch.diff> <ID> [<ID> ...]   -- applies the patch to /repo, runs the
# quick tier of the given checks, and always restores /repo afterwards.
PATCH="$(readlink -f "$1")"; shift
cd /verif
if ! git -C /repo diff --quiet; then echo "/repo has uncommitted changes; refusing" >&2; exit 2; fi
restore() { git -C /repo checkout -- . ; }
trap restore EXIT
git -C /repo apply "$PATCH" || { echo "patch does not apply" >&2; exit 2; }
for id in "$@"; do
  out=$(VERIF_SEED=${VERIF_SEED:-0} ./check "$id" ${TIER:-quick} 2>&1); code=$?
  echo "== $id exit=$code"
  echo "$out" | grep -E "VIOLATION|failure|INFRA|BUILD|KNOWN" | head -5
done
