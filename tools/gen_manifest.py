#!/usr/bin/env python3
"""Generates /verif/MANIFEST.json from the table below (single source of truth)."""
import json, os, sys

ROOT = os.path.dirname(os.path.dirname(os.path.abspath(__file__)))

# id -> (built, category, technique, level text, level note, design ref)
T = {}

def add(pid, built, technique, text, note, ref, category="exploration"):
    T[pid] = dict(built=built, technique=technique, text=text, note=note, ref=ref, category=category)

add("C12", True,
    "model-based stateful property testing (proptest): generated op histories vs reference tree model, invariant after every step, shrinking",
    "Generated histories (<=40 ops quick, <=200 thorough, K in {2,3}) over all six mutators with live/removed/reused/out-of-range selectors are interpreted against an independent reference model; after every operation the raw arena must equal the model field by field, len() must equal reachability, return values must match, and Err / documented panic must leave the arena unchanged. Exploration, not proof: bounded history length, two branching factors.",
    "Trusted: the 150-line reference model in harness/src/treemodel.rs; proptest's generators; labels < K only (documented domain).",
    "DESIGN.md 6/C12")
add("C13", True,
    "property-based differential testing (proptest): library traversals vs reference traversal computed from raw child arrays, scripted next/skip sequences",
    "Tree shapes come from generated add/remove/merge histories (holes, reused indices), the start node is any live node, and a generated script of next/skip_subtree steps drives DfsPre, DfsEdge, Bfs and PolyhedraIter; after every step the item, the remaining stream and size_hint are compared with a reference traversal (implemented twice and cross-checked). Index-order iterators and metrics are compared with direct computation. Exploration over bounded shapes (<=120 build ops) and scripts (<=60 steps).",
    "Trusted: reference traversal semantics of DESIGN.md Appendix A; skip_subtree only after an item was returned and before exhaustion; trees have a root.",
    "DESIGN.md 6/C13")

add("C10", True,
    "property-based differential testing (proptest) against an exact rational simplex with independently checked certificates (Farkas / ray / primal-dual)",
    "Every generated constraint system (dyadic row classes incl. empty, lower-dimensional, unbounded, redundant, zero and parallel rows, plus raw floating-point systems) and objective is solved by the library and by an exact rational LP; status, is_feasible, solve_linprog (both soundness and completeness directions, with the stated 1e-6 thin/margin dead zones) and the Chebyshev-centre program (shape, inscribed ball, radius bracketed by exact optima with norms rounded up/down) are judged per instance. Exploration: dims <= 6, <= 16 rows.",
    "Trusted: rational arithmetic (num-bigint) and the 40-line certificate checker in harness/src/lp.rs (the simplex itself is untrusted: a wrong answer fails its certificate and aborts with exit 2). Known finding C10/unbounded_optimal_face is excluded only on an oracle-certified signature.",
    "DESIGN.md 6/C10")
add("C14", True,
    "property-based testing (proptest) with an exact rational membership oracle on planted inside/boundary/outside points",
    "For generated polytopes, points (anchors on planted hyperplanes, lattice neighbours, images), translation vectors, affine maps and exactly invertible non-symmetric integer matrices, contains()/distance() of the result of every transformation and constructor is compared with exact rational membership of the defining pre-image; every judged point is classified inside/boundary/outside and the dead zone is counted. Exploration: dims <= 6.",
    "Trusted: exact rational evaluation; contains() tolerance as documented (1e-8 raw); simplex(d) judged in f64 with 1e-9 tolerance.",
    "DESIGN.md 6/C14")
add("C15", True,
    "property-based testing (proptest); set equality decided per case by certified exact LP, structural subsequence check bitwise",
    "For generated constraint systems from all row classes named in the property, each clean-up result must be a bitwise subsequence of the input (positive row scaling for normalize; documented canonical forms) and every dropped row must be implied by the kept rows (exact LP with certificate), so the point set is decided unchanged for that system; remove_redundant_row_constraints is additionally checked for rows implied with margin. Exploration: dims <= 5, <= 14 rows.",
    "Trusted: exact LP oracle as in C10. Known finding C15/redundant_row_kept_via_unbounded_face excluded on certified signature only.",
    "DESIGN.md 6/C15")
add("C16", True,
    "property-based testing (proptest) against exact rational evaluation of the defining identities (bit-for-bit in the dyadic regime)",
    "Generated non-square, non-symmetric small dyadic maps and inputs in dims 1..10; every operator in all ownership/view variants, compose/stack/row/row_iter/remove_*/from_row_iter/conversions/all PolyRepr and every named constructor is compared exactly with rational evaluation of its documented meaning. Exploration over bounded dimensions.",
    "Trusted: rational arithmetic; dyadic inputs keep the library's f64 arithmetic exact (so equality is exact, no tolerance).",
    "DESIGN.md 6/C16")

PWL_NOTE = "Trusted: exact rational LP with checked certificates (harness/src/lp.rs), the 150-line reference PWL algebra (harness/src/pwl.rs: substitute/then/lift2 on guard structures), label semantics from the documentation (bit i of the label set iff row i satisfied). Dyadic data keep the library's f64 arithmetic exact; cases needing more than 50 mantissa bits are skipped and counted."
add("C02", True,
    "property-based testing (proptest): generated operand trees; the composed tree is DECIDED equal to the reference composition on all full-dimensional cells by exact LP refinement, plus exact boundary inputs via evaluate()",
    "For every generated pair (f,g) - K in {2,4}, total/partial/leaf-rooted operands, arena layouts with holes, hyperplanes of g planted through f(anchor) - the result of compose<false> (and apply_func) is compared with the reference composition cell by cell (every full-dimensional intersection of a result cell with a reference cell must carry identical affine maps or both be undefined), which decides equality almost everywhere for that pair; exact boundary inputs decide closed/open sides and definedness; g must be bit-identical afterwards and f's nodes keep index, parent and (for decisions) content. Exploration over bounded sizes (dims <= 3, depth <= 4).",
    PWL_NOTE, "DESIGN.md 6/C02")
add("C03", True,
    "property-based testing over generated operation histories (proptest): after every pruning op the tree is decided equal to the unpruned reference on all full-dimensional cells (exact LP), boundary inputs under the stated thin rule, vanished nodes audited by exact feasibility",
    "Histories produce fresh and cached feasibility states; after infeasible_elimination, compose<true> (also compared with compose<false> of the same operands) and tree+-tree the function must equal the unpruned reference (thin rule only for boundary inputs); after an elimination every vanished terminal / lost branch of a skipped decision must have a region without a ball of radius 1e-6 and a skipped decision must not have had a reachable missing branch. Exploration: histories <= 8 ops, dims <= 3.",
    PWL_NOTE + " Thin = no ball of radius 1e-6 inside the box |x| <= 1e6.", "DESIGN.md 6/C03")
add("C04", True,
    "stateful property-based testing (proptest): generated constructor + operation histories interpreted against a dimension-tracking model; invariant after every step on the raw arena",
    "Every generated history (all constructors; apply_func, compose pruned/unpruned with schema or generated total/partial trees, elimination, reduce, tree and affine arithmetic in all variants) must complete without panic and leave a well-formed tree after every step (column counts, common terminal output dimension equal to the model's, rows allowed by K, leaf <=> no children, mirrored links, reachability); while the reference function is tracked it is compared too. Exploration: <= 16 ops.",
    "Trusted: the dimension-tracking interpreter in harness/src/hist.rs; raw-arena well-formedness predicate in harness/src/pwl.rs.", "DESIGN.md 6/C04")
add("C05", True,
    "stateful property-based testing (proptest): after every history step all cached witnesses/verdicts are audited against exact path polytopes; mirror_points fuzzed directly with an exact membership oracle",
    "After every step of generated histories each stored witness (converted exactly) must satisfy every exact path condition of its node (rebuilt from raw parent links) within the documented 1e-8 tolerance, and no node marked Infeasible may have a region containing a ball of radius 1e-6; a third of the histories run with slightly inaccurate LP answers (cfg hook: every 1st..4th LP call returns its point moved 1e-4..1e-7 outside one row), which is what drives the library through its witness-repair branch before anything is cached; mirror_points is called on generated polytopes/start points and every returned column must lie in the polytope. Exploration.",
    "Trusted: exact path reconstruction from raw links; tolerance 1e-8 + 1e-12 relative for the rounding of a.w; the LP hook (src/linalg/polyhedron.rs, cfg(affinitree_verif)) for the perturbed-answer histories.", "DESIGN.md 6/C05, 6a")
add("C06", True,
    "property-based testing over generated total-tree pipelines (proptest) with an independent exact feasibility oracle for every surviving node and a brute-force region count of the unpruned twin",
    "For pipelines of apply_func / compose (pruned, unpruned) / elimination on total trees: after every elimination no surviving non-root node may have an exactly empty closed path polytope (exact LP; margin made explicit), no non-root decision a single branch, a second run must leave the arena bit-identical with 0 infeasible LPs, and the final terminal count must lie between the number of regions with a 1e-6 ball and the number of regions not empty by a margin of the unpruned composition. Exploration: <= 10 ops, dims <= 3.",
    PWL_NOTE + " (The former known finding C06/single_branch_after_rejected_lp_witness is fixed in /repo; a recurrence is a violation.)", "DESIGN.md 6/C06")
add("C07", True,
    "property-based testing (proptest): every operator variant's result is decided equal to the coefficient-wise lifting of the reference operands on all full-dimensional cells (exact LP) plus exact boundary inputs",
    "For generated operand pairs (total/partial, shared anchors) all four operators in four ownership variants, negation and twelve affine-on-either-side forms are compared with the reference lifting (operand order respected), cell by cell and at boundary inputs (thin rule only for the tree-tree operators, which prune on the fly). Exploration: dims <= 3, depth <= 4.",
    PWL_NOTE, "DESIGN.md 6/C07")
add("C08", True,
    "property-based testing (proptest): reduce() vs original function decided on all cells (exact LP) + index-exact reference reduction model + idempotence",
    "Generated trees with terminal pools and near-copies: the reduced tree must denote the same function (no exemption), not grow, be a fixed point of reduce, contain no identical terminal siblings below the root, and equal an independent index-exact reference reduction (which also shows that siblings differing in one coefficient or bias are kept). Exploration: depth <= 5.",
    PWL_NOTE, "DESIGN.md 6/C08")
add("C09", True,
    "property-based testing (proptest): polyhedra()/polyhedra_iter() streams vs reference traversal and raw path conditions; routing of exact boundary and interior points; pairwise interior-disjointness by exact LP",
    "For generated trees (total/partial, holes) the reported stream must equal depth-first order with depth/sibling counters and half-spaces rebuilt from raw parent links, also after generated skip_subtree scripts; find_terminal's labels must lead to the returned node and agree with exact predicate evaluation (closed side = label 1) at inputs on hyperplanes; inputs satisfy all reported conditions of their path; exact interior points of every reported polytope are routed through the node; terminal regions have no common interior point; total trees are defined everywhere. Exploration: depth <= 5, dims <= 3.",
    PWL_NOTE, "DESIGN.md 6/C09")
add("C17", True,
    "property-based testing (proptest): each predefined tree is decided equal to its textbook definition on all full-dimensional cells (exact LP) and evaluated at inputs planted on breakpoints and ties",
    "Every schema generator in dims 1..8 with every row/class and dyadic parameters is compared with an independently written textbook reference (guards + affine pieces) cell by cell and at inputs whose relevant component is a breakpoint or a breakpoint +- small steps (argmax/class: 3-letter alphabet, ties everywhere); from_poly with/without else; from_slice+compose+remove_axes against T(embed(y)). Exploration over bounded dims.",
    PWL_NOTE + " Hard sigmoid (1/6) compared with 1e-12 tolerance.", "DESIGN.md 6/C17")

add("C01", True,
    "property-based testing (proptest): generated networks; the distilled tree is decided equal to the textbook network semantics on all full-dimensional linear regions by exact LP refinement, plus exact evaluation at planted breakpoint/tie inputs",
    "For every generated network (all activation kinds, argmax/class heads, linear layer after the head, preconditions incl. lower-dimensional and empty ones, biases planted so that pre-activations hit breakpoints at exactly propagated anchors, duplicated rows for ties) the distilled tree is compared with the composition of the textbook definitions cell by cell (decides the network almost everywhere) and at boundary inputs with no thin exemption, undefinedness outside the precondition included. A float regime (hard sigmoid, raw weights) is judged with explicit tolerances and dead zones. Exploration: <= 3 inputs, <= 3 linear layers of width <= 4.",
    PWL_NOTE + " Textbook definitions in harness/src/schema.rs.", "DESIGN.md 6/C01")
add("C11", True,
    "fault injection at the LP boundary (cfg hook) with exhaustive enumeration of single faults per generated tree when N <= 40 LP calls, sampled otherwise, plus generated multi-fault plans; every faulted run judged by the C03/C04/C05 oracles",
    "For generated trees and operations (infeasible_elimination, compose<true>, tree+-tree) the fault-free run is counted, then every single call position x {Error, Unbounded, perturbed witness, far-off witness} is injected (exhaustive for that tree when N <= 40) plus multi-fault plans; each faulted run must not panic, must stay well-formed, must denote the unpruned reference function, must cache only sound witnesses/verdicts and may only prune less than the fault-free run.",
    "Trusted: the hook (src/linalg/polyhedron.rs, cfg(affinitree_verif)) replaces only the answer of the chosen call; oracles as in C03/C04/C05.", "DESIGN.md 6/C11", category="fault_enumeration")
add("C18", True,
    "stateful property-based testing (proptest): builder-call histories vs a model of the true output dimension; every split point re-distilled and compared by exact cell refinement; generated npz files round-tripped through read_layers",
    "Generated sequences of Architecture calls (valid and invalid, continuing after argmax and after rejected calls) are compared call by call with a model of the true output dimension (accept/reject, unchanged state on Err, current_shape); the accepted architecture is distilled and compared with the textbook semantics, and for every split point the two extracted halves must carry the right shapes and compose to the same function; layer files in the shipped npz dialect (up to 40 entries, shuffled archive order, optional 000.layers.npy) must be read back in index order, weights bit-for-bit, one activation per neuron.",
    PWL_NOTE + " Scratch files under /verif/work are removed after each case.", "DESIGN.md 6/C18")
add("C19", True,
    "property-based round-trip testing (proptest): the rendered text/DOT is parsed back by an independent recursive-descent parser and compared with the stored object",
    "Generated matrices (mixed magnitudes, -0.0, half-way decimals, zero rows) under all FormatOptions combinations and precisions, and generated trees (holes in the index space) for Display and Dot: every shown coefficient must sit next to the index of the variable it multiplies and equal the stored (normalised) value at the printed precision, signs, inequality direction and bias must match, omissions must be marked by exactly one ellipsis at the right place with sorted order/bracketing respected, and the tree/DOT output must contain exactly one statement per node and per raw (parent,label,child) edge with the node's own function.",
    "Trusted: the output grammar of DESIGN.md Appendix B and the 150-line parser in harness/src/props/c19.rs; DOT shape attributes are outside the statement.", "DESIGN.md 6/C19")

REGIMES = (" Beyond the ordinary bounds stated here, rare generator regimes (DESIGN.md 5.1; where they apply to this property) reach: "
           "coefficients scaled by exact powers of two up to 2^+-110, -0.0 and sub-epsilon magnitudes; column-major and reversed (negative-stride) input arrays; "
           "an installed logger; layer widths 16-40, input dimensions 8-12 and data-sized dimensions 200-1300 (evaluation / membership probes); "
           "arenas of up to 12000 nodes, chains of up to 660 nodes, AffTree paths of 66-96 edges; data translated by 2^20..2^30; "
           "iterator adaptors and the VERBOSE variant of compose. Exploration, never a proof of absence.")
FUZZ = {"C02", "C03", "C04", "C06", "C07", "C08", "C09", "C10", "C12", "C13", "C15", "C19"}

PENDING_REASON = "check not built yet in this round (planned; see DESIGN.md Appendix D) - no claim is made"

ALL = ["C%02d" % i for i in range(1, 20)]

def main():
    checks = []
    na = []
    for pid in ALL:
        e = T.get(pid)
        if e is None or not e["built"]:
            na.append({"property_id": pid, "reason": PENDING_REASON})
            continue
        if pid in FUZZ:
            e = dict(e)
            e["technique"] += "; thorough tier adds a coverage-guided libFuzzer campaign (cargo-fuzz, total byte decoder) driving the same oracle"
        checks.append({
            "property_id": pid,
            "quick_cmd": f"./check {pid} quick",
            "thorough_cmd": f"./check {pid} thorough",
            "evidence_file": f"evidence/{pid}.json",
            "replay_cmd_template": f"./check {pid} --replay {{path}}",
            "engine": "vharness",
            "level_claimed": {"category": e["category"], "text": e["text"] + REGIMES, "design_ref": e["ref"]},
            "level_note": e["note"],
            "technique": e["technique"],
        })
    hooks_commits = []
    hc = os.path.join(ROOT, "tools", "hook_commits.txt")
    if os.path.exists(hc):
        hooks_commits = [l.strip() for l in open(hc) if l.strip()]
    m = {
        "version": 1,
        "setup_cmd": "./setup.sh",
        "hooks": {
            "guard": "--cfg affinitree_verif",
            "enable": "harness/.cargo/config.toml sets rustflags = [\"--cfg\", \"affinitree_verif\"]; every ./check run rebuilds the harness (path dependency on /repo) with it",
            "baseline_off_cmd": "cd /repo && cargo test --workspace --no-fail-fast --offline",
            "source_commits": hooks_commits,
            "add_only": True,
        },
        "engines": [{
            "name": "vharness",
            "path": "harness/",
            "serves_properties": [c["property_id"] for c in checks],
            "kind_free_text": "Rust crate (lib + bin vcheck): proptest-driven generated-input search against explicit oracles (exact rational LP with certificates, cell model of PWL trees, reference models); shrinks failures to JSON replay files",
        }],
        "checks": checks,
        "not_applicable": na,
        "notes": "All checks are generated-input search (property-based testing; fuzz targets are additional drivers). ./check rebuilds the harness from /repo's working tree on every call. Exit 2 = infrastructure problem (build failure, oracle self-check, watchdog), never a verdict.",
    }
    if not na:
        del m["not_applicable"]
    json.dump(m, open(os.path.join(ROOT, "MANIFEST.json"), "w"), indent=1)
    print(f"{len(checks)} checks, {len(na)} not_applicable")

if __name__ == "__main__":
    main()
