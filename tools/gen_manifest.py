#!/usr/bin/env python3
"""Generates /verif/MANIFEST.json from the table below (single source of truth)."""
import json, os, sys

ROOT = os.path.dirname(os.path.dirname(os.path.abspath(__file__)))

# id -> (built, category, technique, level text, level note, design ref)
T = {}

def add(pid, built, technique, text, note, ref, category="exploration"):
    T[pid] = dict(built=built, technique=technique, text=text, note=note, ref=ref, category=category)

add("C12", True,
    "model-based stateful property testing (proptest): generated op histories vs reference tree model, invariant after every step, shrinking",
    "Generated histories (<=40 ops quick, <=200 thorough, K in {2,3}) over all six mutators with live/removed/reused/out-of-range selectors are interpreted against an independent reference model; after every operation the raw arena must equal the model field by field, len() must equal reachability, return values must match, and Err / documented panic must leave the arena unchanged. Exploration, not proof: bounded history length, two branching factors.",
    "Trusted: the 150-line reference model in harness/src/treemodel.rs; proptest's generators; labels < K only (documented domain).",
    "DESIGN.md 6/C12")
add("C13", True,
    "property-based differential testing (proptest): library traversals vs reference traversal computed from raw child arrays, scripted next/skip sequences",
    "Tree shapes come from generated add/remove/merge histories (holes, reused indices), the start node is any live node, and a generated script of next/skip_subtree steps drives DfsPre, DfsEdge, Bfs and PolyhedraIter; after every step the item, the remaining stream and size_hint are compared with a reference traversal (implemented twice and cross-checked). Index-order iterators and metrics are compared with direct computation. Exploration over bounded shapes (<=120 build ops) and scripts (<=60 steps).",
    "Trusted: reference traversal semantics of DESIGN.md Appendix A; skip_subtree only after an item was returned and before exhaustion; trees have a root.",
    "DESIGN.md 6/C13")

add("C10", True,
    "property-based differential testing (proptest) against an exact rational simplex with independently checked certificates (Farkas / ray / primal-dual)",
    "Every generated constraint system (dyadic row classes incl. empty, lower-dimensional, unbounded, redundant, zero and parallel rows, plus raw floating-point systems) and objective is solved by the library and by an exact rational LP; status, is_feasible, solve_linprog (both soundness and completeness directions, with the stated 1e-6 thin/margin dead zones) and the Chebyshev-centre program (shape, inscribed ball, radius bracketed by exact optima with norms rounded up/down) are judged per instance. Exploration: dims <= 6, <= 16 rows.",
    "Trusted: rational arithmetic (num-bigint) and the 40-line certificate checker in harness/src/lp.rs (the simplex itself is untrusted: a wrong answer fails its certificate and aborts with exit 2). Known finding C10/unbounded_optimal_face is excluded only on an oracle-certified signature.",
    "DESIGN.md 6/C10")
add("C14", True,
    "property-based testing (proptest) with an exact rational membership oracle on planted inside/boundary/outside points",
    "For generated polytopes, points (anchors on planted hyperplanes, lattice neighbours, images), translation vectors, affine maps and exactly invertible non-symmetric integer matrices, contains()/distance() of the result of every transformation and constructor is compared with exact rational membership of the defining pre-image; every judged point is classified inside/boundary/outside and the dead zone is counted. Exploration: dims <= 6.",
    "Trusted: exact rational evaluation; contains() tolerance as documented (1e-8 raw); simplex(d) judged in f64 with 1e-9 tolerance.",
    "DESIGN.md 6/C14")
add("C15", True,
    "property-based testing (proptest); set equality decided per case by certified exact LP, structural subsequence check bitwise",
    "For generated constraint systems from all row classes named in the property, each clean-up result must be a bitwise subsequence of the input (positive row scaling for normalize; documented canonical forms) and every dropped row must be implied by the kept rows (exact LP with certificate), so the point set is decided unchanged for that system; remove_redundant_row_constraints is additionally checked for rows implied with margin. Exploration: dims <= 5, <= 14 rows.",
    "Trusted: exact LP oracle as in C10. Known finding C15/redundant_row_kept_via_unbounded_face excluded on certified signature only.",
    "DESIGN.md 6/C15")
add("C16", True,
    "property-based testing (proptest) against exact rational evaluation of the defining identities (bit-for-bit in the dyadic regime)",
    "Generated non-square, non-symmetric small dyadic maps and inputs in dims 1..10; every operator in all ownership/view variants, compose/stack/row/row_iter/remove_*/from_row_iter/conversions/all PolyRepr and every named constructor is compared exactly with rational evaluation of its documented meaning. Exploration over bounded dimensions.",
    "Trusted: rational arithmetic; dyadic inputs keep the library's f64 arithmetic exact (so equality is exact, no tolerance).",
    "DESIGN.md 6/C16")

PENDING_REASON = "check not built yet in this round (planned; see DESIGN.md Appendix D) - no claim is made"

ALL = ["C%02d" % i for i in range(1, 20)]

def main():
    checks = []
    na = []
    for pid in ALL:
        e = T.get(pid)
        if e is None or not e["built"]:
            na.append({"property_id": pid, "reason": PENDING_REASON})
            continue
        checks.append({
            "property_id": pid,
            "quick_cmd": f"./check {pid} quick",
            "thorough_cmd": f"./check {pid} thorough",
            "evidence_file": f"evidence/{pid}.json",
            "replay_cmd_template": f"./check {pid} --replay {{path}}",
            "engine": "vharness",
            "level_claimed": {"category": e["category"], "text": e["text"], "design_ref": e["ref"]},
            "level_note": e["note"],
            "technique": e["technique"],
        })
    hooks_commits = []
    hc = os.path.join(ROOT, "tools", "hook_commits.txt")
    if os.path.exists(hc):
        hooks_commits = [l.strip() for l in open(hc) if l.strip()]
    m = {
        "version": 1,
        "setup_cmd": "./setup.sh",
        "hooks": {
            "guard": "--cfg affinitree_verif",
            "enable": "harness/.cargo/config.toml sets rustflags = [\"--cfg\", \"affinitree_verif\"]; every ./check run rebuilds the harness (path dependency on /repo) with it",
            "baseline_off_cmd": "cd /repo && cargo test --workspace --no-fail-fast --offline",
            "source_commits": hooks_commits,
            "add_only": True,
        },
        "engines": [{
            "name": "vharness",
            "path": "harness/",
            "serves_properties": [c["property_id"] for c in checks],
            "kind_free_text": "Rust crate (lib + bin vcheck): proptest-driven generated-input search against explicit oracles (exact rational LP with certificates, cell model of PWL trees, reference models); shrinks failures to JSON replay files",
        }],
        "checks": checks,
        "not_applicable": na,
        "notes": "All checks are generated-input search (property-based testing; fuzz targets are additional drivers). ./check rebuilds the harness from /repo's working tree on every call. Exit 2 = infrastructure problem (build failure, oracle self-check, watchdog), never a verdict.",
    }
    if not na:
        del m["not_applicable"]
    json.dump(m, open(os.path.join(ROOT, "MANIFEST.json"), "w"), indent=1)
    print(f"{len(checks)} checks, {len(na)} not_applicable")

if __name__ == "__main__":
    main()
