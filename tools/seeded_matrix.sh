#!/bin/bash
# usage: tools/seeded_matrix.sh [quick|thorough]
# Applies every patch under seeded/, seeded_informed/, seeded_wave3/, seeded_wave4/, seeded_informed2..5/ and seeded_wave9/ in turn to the repository
# (/repo, or the scratch copy $VP_RUN_REPO when started through `vp run --with-repo`), runs the check of the
# property the change was aimed at, restores the repository, and prints one line per change.
TIER=${1:-quick}
ROOT="$(cd "$(dirname "$0")/.." && pwd)"
cd "$ROOT"
REPO=/repo
if [ -n "${VP_RUN_REPO:-}" ]; then
  REPO="$VP_RUN_REPO"
  sed -i "s|path = \"/repo\"|path = \"$VP_RUN_REPO\"|" harness/Cargo.toml
  cp "$VP_RUN_REPO/Cargo.lock" harness/Cargo.lock 2>/dev/null || cp /repo/Cargo.lock harness/Cargo.lock
fi
if ! git -C "$REPO" diff --quiet; then echo "$REPO has uncommitted changes; refusing" >&2; exit 2; fi
restore() { git -C "$REPO" checkout -- . ; }
trap restore EXIT
for d in seeded/* seeded_informed/* seeded_wave3/* seeded_wave4/* seeded_informed2/* seeded_informed3/* seeded_informed4/* seeded_informed5/* seeded_wave9/*; do
  [ -f "$d/patch.diff" ] || continue
  name=$(basename "$d"); id=$(echo "$name" | grep -oE "C[0-9]{2}" | head -1)
  git -C "$REPO" apply "$ROOT/$d/patch.diff" || { echo "$name: PATCH-DOES-NOT-APPLY"; continue; }
  t0=$(date +%s)
  out=$(VERIF_SEED=${VERIF_SEED:-1} ./check "$id" $TIER 2>&1); code=$?
  t1=$(date +%s)
  if [ $code -eq 1 ] && echo "$out" | grep -q "^VIOLATION property=$id"; then r=CAUGHT; elif [ $code -eq 0 ]; then r=missed; else r="exit=$code"; fi
  echo "$d: $id $TIER $r ($((t1-t0))s) $(echo "$out" | grep -E "^failure" | head -1 | cut -c1-140)"
  restore
done
echo MATRIX-DONE
