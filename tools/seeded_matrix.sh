#!/bin/bash
# usage: tools/seeded_matrix.sh [quick|thorough]  -- applies every patch under seeded/, seeded_informed/ and seeded_wave3/ to
# /repo in turn, runs the check of the property the change was aimed at, restores /repo, prints one line each.
TIER=${1:-quick}
cd /verif
if ! git -C /repo diff --quiet; then echo "/repo has uncommitted changes; refusing" >&2; exit 2; fi
restore() { git -C /repo checkout -- . ; }
trap restore EXIT
for d in seeded/* seeded_informed/* seeded_wave3/*; do
  [ -f "$d/patch.diff" ] || continue
  name=$(basename "$d"); id=$(echo "$name" | grep -oE "C[0-9]{2}" | head -1)
  git -C /repo apply "/verif/$d/patch.diff" || { echo "$name: PATCH-DOES-NOT-APPLY"; continue; }
  t0=$(date +%s)
  out=$(VERIF_SEED=${VERIF_SEED:-1} ./check "$id" $TIER 2>&1); code=$?
  t1=$(date +%s)
  if [ $code -eq 1 ] && echo "$out" | grep -q "^VIOLATION property=$id"; then r=CAUGHT; elif [ $code -eq 0 ]; then r=missed; else r="exit=$code"; fi
  echo "$name: $id $TIER $r ($((t1-t0))s) $(echo "$out" | grep -E "^failure" | head -1 | cut -c1-140)"
  restore
done
