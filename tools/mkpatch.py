#!/usr/bin/env python3
"""usage: mkpatch.py OUT.diff FILE OLD NEW [FILE OLD NEW ...]  -- builds a patch against /repo without leaving changes behind"""
import sys, subprocess
out = sys.argv[1]
args = sys.argv[2:]
assert subprocess.run(['git','-C','/repo','diff','--quiet']).returncode == 0, "/repo dirty"
try:
    for i in range(0, len(args), 3):
        f, old, new = args[i:i+3]
        p = '/repo/' + f
        s = open(p).read()
        assert s.count(old) >= 1, f"pattern not found in {f}: {old!r}"
        s = s.replace(old, new, 1)
        open(p, 'w').write(s)
    d = subprocess.run(['git','-C','/repo','diff'], capture_output=True, text=True).stdout
    open(out, 'w').write(d)
finally:
    subprocess.run(['git','-C','/repo','checkout','--','.'])
print("wrote", out, len(d.splitlines()), "lines")
