#!/usr/bin/env python3
"""Sensitivity matrix: applies single-site mutants to a scratch copy of the repository, checks whether
the repository's own unit tests notice, and runs the targeted checks' quick tier.

usage: tools/mutants.py <repo_copy> <verif_copy> [name-filter]
  repo_copy  : a git checkout of /repo that may be modified freely (e.g. $VP_RUN_REPO)
  verif_copy : a checkout of /verif whose harness/Cargo.toml already points to repo_copy
Writes <verif_copy>/mutants_result.json and prints one line per mutant.
"""
import json, os, subprocess, sys, time

M = []
def m(name, checks, file, old, new):
    M.append(dict(name=name, checks=checks.split(), file=file, old=old, new=new))

G = "src/tree/graph.rs"; IT = "src/tree/iter.rs"; AF = "src/linalg/affine.rs"; PH = "src/linalg/polyhedron.rs"
FM = "src/linalg/impl_affineformat.rs"; AT = "src/pwl/afftree.rs"; PI = "src/pwl/iter.rs"; CO = "src/pwl/impl_composition.rs"
IE = "src/pwl/impl_infeasible_elim.rs"; OP = "src/pwl/impl_ops.rs"; RD = "src/pwl/impl_reduction.rs"; SC = "src/distill/schema.rs"
BU = "src/distill/builder.rs"; AR = "src/distill/arch.rs"; DO = "src/pwl/dot.rs"; LO = "src/linalg/impl_ops.rs"

# --- tree/graph.rs
m("graph_try_remove_keeps_isleaf_false", "C12", G, "        if self.num_children(parent) == 0 {\n            self.arena[parent].isleaf = true;\n        }\n", "")
m("graph_remove_desc_keeps_child_links", "C12", G, "        for child in &mut node.children {\n            *child = None;\n        }\n", "")
m("graph_merge_keeps_child_parent", "C12 C08", G, "        self.arena[child_idx].parent = Some(grandparent_idx);\n", "")
m("graph_add_child_keeps_isleaf", "C12", G, "        parent_node.isleaf = false;\n        parent_node.children[label] = Some(node_idx);", "        parent_node.children[label] = Some(node_idx);")
m("graph_remove_desc_leaks_grandchildren", "C12", G, "            for child_idx in current_node.children.into_iter().flatten() {\n                stack.push(child_idx);\n            }\n", "")
# --- tree/iter.rs
m("iter_dfs_children_not_reversed", "C13 C09", IT, "for (n_remaining, child) in node.children.iter().rev().flatten().enumerate() {", "for (n_remaining, child) in node.children.iter().flatten().enumerate() {")
m("iter_dfs_depth_not_incremented", "C13 C09", IT, "            self.stack.push(DfsNodeData {\n                depth: data.depth + 1,", "            self.stack.push(DfsNodeData {\n                depth: data.depth,")
m("iter_bfs_skip_pops_front", "C13", IT, "            self.queue.pop_back();", "            self.queue.pop_front();")
m("iter_dfs_ub_not_decremented", "C13", IT, "        self.size_lb = self.size_lb.saturating_sub(1);\n        self.size_ub = self.size_ub.saturating_sub(1);\n        Some(data)\n    }\n\n    fn size_hint(&self) -> (usize, Option<usize>) {\n        (self.size_lb, Some(self.size_ub))\n    }\n}\n\n/// Representation of an edge", "        self.size_lb = self.size_lb.saturating_sub(1);\n        self.size_ub = self.size_ub.saturating_sub(2);\n        Some(data)\n    }\n\n    fn size_hint(&self) -> (usize, Option<usize>) {\n        (self.size_lb, Some(self.size_ub))\n    }\n}\n\n/// Representation of an edge")
# --- linalg/affine.rs
m("aff_compose_bias_uses_other", "C16 C02", AF, "            self.mat.dot(&other.mat),\n            self.apply(&other.bias),", "            self.mat.dot(&other.mat),\n            self.mat.dot(&other.bias),")
m("aff_stack_order_swapped", "C16", AF, "            concatenate![Axis(0), self.mat, other.mat],\n            concatenate![Axis(0), self.bias, other.bias],", "            concatenate![Axis(0), other.mat, self.mat],\n            concatenate![Axis(0), other.bias, self.bias],")
m("poly_translate_sign", "C14", AF, "&self.bias + self.mat.dot(direction))", "&self.bias - self.mat.dot(direction))")
m("poly_apply_pre_bias_sign", "C14 C02", AF, "            self.mat.dot(&func.mat),\n            -self.mat.dot(&func.bias) + &self.bias,", "            self.mat.dot(&func.mat),\n            self.mat.dot(&func.bias) + &self.bias,")
m("poly_apply_post_transposed", "C14", AF, "            self.mat.dot(inverse_mat),\n", "            self.mat.dot(&inverse_mat.t()),\n")
m("poly_hyperrect_bounds_swapped", "C14", AF, "            mat[[idx, axis]] = -B::one();\n            bias[idx] = -lower;", "            mat[[idx, axis]] = -B::one();\n            bias[idx] = -upper;")
m("poly_cross_polytope_bit", "C14", AF, "if i.bitand(1 << j) != 0 {", "if i.bitand(1 << (j + 1)) != 0 {")
m("poly_from_normal_sign", "C14", AF, "PolytopeG::<A>::from_mats(-normal_vectors, -bias)", "PolytopeG::<A>::from_mats(-normal_vectors, bias)")
m("poly_tautology_strict", "C15 C19", AF, "                    if *v >= A::zero() {\n                        // superfluous bound", "                    if *v > A::zero() {\n                        // superfluous bound")
m("poly_dedup_ignores_bias", "C15", AF, "                if mat_eq && bias_eq {", "                if mat_eq {")
m("poly_normalize_bias_twice", "C15 C05", AF, "                bias.map_inplace(|x| *x /= norm);\n            }\n        }\n        self\n    }", "                bias.map_inplace(|x| *x /= norm * norm);\n            }\n        }\n        self\n    }")
m("poly_convert_geqbias_sign", "C16", AF, "            PolyRepr::MatrixGeqBias => AffFuncBase::<FunctionT, OwnedRepr<A>> {\n                mat: -self.mat,\n                bias: -self.bias,", "            PolyRepr::MatrixGeqBias => AffFuncBase::<FunctionT, OwnedRepr<A>> {\n                mat: -self.mat,\n                bias: self.bias,")
m("aff_slice_mask_inverted", "C16 C17", AF, "let input_mask = reference_point.map(|x| if x.is_nan() { A::one() } else { A::zero() });", "let input_mask = reference_point.map(|x| if x.is_nan() { A::zero() } else { A::one() });")
m("aff_subtraction_swapped", "C16 C17 C01", AF, "        matrix[[0, left]] = A::one();\n        matrix[[0, right]] = -A::one();", "        matrix[[0, left]] = -A::one();\n        matrix[[0, right]] = A::one();")
m("aff_zero_idx_wrong_index", "C16 C17", AF, "        mat[[index, index]] = A::zero();\n", "        mat[[(index + 1) % dim, (index + 1) % dim]] = A::zero();\n")
m("poly_contains_strict", "C14 C05", AF, "            .all(|x| x >= A::from(-1e-8).unwrap())", "            .all(|x| x > A::zero())")
m("poly_chebyshev_radius_sign", "C10", AF, "        radius[[0, mat.len_of(Axis(1)) - 1]] = -A::one();", "        radius[[0, mat.len_of(Axis(1)) - 1]] = A::one();")
m("poly_chebyshev_no_norm", "C10", AF, "            norm[[idx, 0]] = row.map(|x: &A| x.powi(2)).sum().sqrt();", "            norm[[idx, 0]] = row.map(|x: &A| x.powi(2)).sum();")
# --- linalg/polyhedron.rs
m("lp_ge_instead_of_le", "C10 C06", PH, "ComparisonOp::Le, *bias / scale);", "ComparisonOp::Ge, *bias / scale);")
m("lp_nonneg_variables", "C10 C03 C06", PH, "pb.add_var(*x / cost_scale, (f64::NEG_INFINITY, f64::INFINITY))", "pb.add_var(*x / cost_scale, (0.0, f64::INFINITY))")
m("lp_unbounded_as_infeasible", "C10", PH, "            Ok(Err(minilp::Error::Unbounded)) => PolytopeStatus::Unbounded,", "            Ok(Err(minilp::Error::Unbounded)) => PolytopeStatus::Infeasible,")
m("lp_redundancy_test_reversed", "C15", PH, "                    if val <= bound + f64::EPSILON * row_scale {", "                    if val >= bound + f64::EPSILON * row_scale {")
m("lp_redundancy_costs_not_negated", "C15", PH, "let status = poly.solve_linprog(-costs.clone(), false);", "let status = poly.solve_linprog(costs.clone(), false);")
m("lp_row_scale_without_abs", "C10 C03", PH, "let scale = unit_scale(row.iter().fold(0f64, |acc, x| acc.max(x.abs())));", "let scale = unit_scale(row.iter().fold(0f64, |acc, x| acc.max(*x)));")
m("lp_backend_panic_as_infeasible", "C04 C11", PH, "            Err(_) => PolytopeStatus::Error(\"LP backend panicked while solving\".to_string()),", "            Err(_) => PolytopeStatus::Infeasible,")
m("elim_heuristic_points_unfiltered", "C05 C04", IE, "                        .filter(|point| poly.contains(point))\n", "")
# --- formatter
m("fmt_tautology_symbols_swapped", "C19", FM, "        if bias >= 0.0 {\n            return write!(f, \"{}\", TRUE);\n        } else {\n            return write!(f, \"{}\", FALSE);\n        }", "        if bias >= 0.0 {\n            return write!(f, \"{}\", FALSE);\n        } else {\n            return write!(f, \"{}\", TRUE);\n        }")
m("fmt_skip_on_index_not_position", "C19", FM, "    for (no, (pos, (idx, coeff))) in elements.into_iter().with_position().enumerate() {\n        if options.skip_axes.contains(&(no as i32)) {", "    for (_no, (pos, (idx, coeff))) in elements.into_iter().with_position().enumerate() {\n        if options.skip_axes.contains(&(idx as i32)) {")
m("fmt_sign_from_rounded", "C19", FM, "    if value.is_sign_negative() {\n        write!(f, \"{}\", MINUS)?;", "    if value < -0.005 {\n        write!(f, \"{}\", MINUS)?;")
m("fmt_poly_rows_no_ellipsis", "C19", FM, "pub fn write_poly(\n    f: &mut fmt::Formatter,\n    pred: PolytopeView,\n    options: &FormatOptions,\n) -> std::fmt::Result {\n    let mut first_skip = true;", "pub fn write_poly(\n    f: &mut fmt::Formatter,\n    pred: PolytopeView,\n    options: &FormatOptions,\n) -> std::fmt::Result {\n    let mut first_skip = false;")
m("dot_node_prints_root", "C19", DO, "                write_func(f, node.value.aff.view(), &self.terminal_opt)?;", "                write_func(f, self.tree.tree.get_root().value.aff.view(), &self.terminal_opt)?;")
# --- pwl/afftree.rs
m("eval_decision_strict", "C09 C17 C01 C02", AT, ".map(|x| *x <= 0.);", ".map(|x| *x < 0.);")
m("eval_label_bits_not_shifted", "C02", AT, "                true => idx += 1 << i,", "                true => idx += 1 + i,")
m("from_poly_else_on_label1", "C17", AT, "        if let Some(aff_false) = func_false {\n            tree.add_child_node(parent, 0, aff_false.clone()).unwrap();\n        }\n        tree.add_child_node(parent, 1, func_true).unwrap();", "        if let Some(aff_false) = func_false {\n            tree.add_child_node(parent, 1, aff_false.clone()).unwrap();\n            tree.add_child_node(parent, 0, func_true).unwrap();\n            return Ok(tree);\n        }\n        tree.add_child_node(parent, 1, func_true).unwrap();")
m("remove_axes_keeps_states", "C17", AT, "            node.state = NodeState::Indeterminate;\n        }\n\n        Ok(())", "        }\n\n        Ok(())")
# --- pwl/iter.rs
m("polygen_pop_one_less", "C09 C03 C06", PI, "let diff = 1 + self.last_depth - depth;", "let diff = self.last_depth - depth;")
m("polygen_label0_bias_not_negated", "C09 C03 C01", PI, "let poly = Polytope::from_mats(&aff.mat * factor, &aff.bias * factor);\n            self.predicates.push(poly);", "let poly = Polytope::from_mats(&aff.mat * factor, aff.bias.clone());\n            self.predicates.push(poly);")
# --- composition
m("comp_leaf_root_uses_update_decision", "C02", CO, "                true => C::update_terminal(&lhs.tree.get_root().value.aff, &terminal_aff),\n                false => C::update_decision(&lhs.tree.get_root().value.aff, &terminal_aff),", "                true => C::update_decision(&lhs.tree.get_root().value.aff, &terminal_aff),\n                false => C::update_decision(&lhs.tree.get_root().value.aff, &terminal_aff),")
m("comp_forward_without_k_check", "C03 C04 C07", CO, "if created_children == 1 && created_children + skipped_children == K {", "if created_children == 1 {")
m("comp_pruned_decision_bias_sign", "C03 C01", CO, "impl CompositionSchema for FunctionCompositionInfeasible {\n    fn update_decision(original: &AffFunc, context: &AffFunc) -> AffFunc {\n        AffFunc::from_mats(\n            original.mat.dot(&context.mat),\n            -original.mat.dot(&context.bias) + &original.bias,", "impl CompositionSchema for FunctionCompositionInfeasible {\n    fn update_decision(original: &AffFunc, context: &AffFunc) -> AffFunc {\n        AffFunc::from_mats(\n            original.mat.dot(&context.mat),\n            original.mat.dot(&context.bias) + &original.bias,")
# --- infeasible elimination
m("elim_inherit_without_contains", "C05 C03 C06", IE, "                .filter(|point| hyperplane.contains(point))\n", "")
m("elim_forward_needs_one_sibling_less", "C03 C06", IE, "        if infeasible_children.len() != K - 1 {\n            return None;\n        }", "        if infeasible_children.len() > K - 1 {\n            return None;\n        }")
m("elim_infeasible_as_indeterminate", "C06", IE, "            PolytopeStatus::Infeasible => {\n                counter.lps_infeasible += 1;\n                NodeState::Infeasible\n            }", "            PolytopeStatus::Infeasible => {\n                counter.lps_infeasible += 1;\n                NodeState::Indeterminate\n            }")
m("elim_no_forwarding", "C06", IE, "            if n_remaining == 0 {\n                self.forward_if_redundant(parent_idx);\n            }", "            if n_remaining == usize::MAX {\n                self.forward_if_redundant(parent_idx);\n            }")
m("elim_deferred_wrong_label", "C11 C03 C06", IE, "            let _ = self.tree.try_remove_child(node, label);", "            let _ = self.tree.try_remove_child(node, 1 - label);")
m("mirror_step_sign", "C05", IE, "                point += &step_vec", "                point -= &step_vec")
m("edge_feasible_parent_witness_any_to_all", "C03", IE, "                if wit.iter().any(|point| poly.contains(point)) {\n                    return true;\n                }", "                if wit.iter().any(|point| !poly.contains(point)) {\n                    return false;\n                }")
# --- ops
m("ops_terminal_operands_swapped", "C07", OP, "            context.clone().$op(original)", "            original.clone().$op(context)")
m("ops_affine_left_delegates_right", "C07", OP, "            rhs.unary_op_into(|node| self.clone().$mth(node))", "            rhs.unary_op_into(|node| node.$mth(self))")
m("linalg_ops_owned_bias_from_rhs", "C16 C07", LO, "    impl<S: DataOwned<Elem = A> + DataMut, A: Float, S2: Data<Elem = A>> $trt<&AffFuncBase<FunctionT, S2>> for AffFuncBase<FunctionT, S> {\n        type Output = AffFuncBase<FunctionT, S>;\n\n        fn $mth(self, rhs: &AffFuncBase<FunctionT, S2>) -> Self::Output {\n            let mat = self.mat.$mth(&rhs.mat);\n            let bias = self.bias.$mth(&rhs.bias);", "    impl<S: DataOwned<Elem = A> + DataMut, A: Float, S2: Data<Elem = A>> $trt<&AffFuncBase<FunctionT, S2>> for AffFuncBase<FunctionT, S> {\n        type Output = AffFuncBase<FunctionT, S>;\n\n        fn $mth(self, rhs: &AffFuncBase<FunctionT, S2>) -> Self::Output {\n            let mat = self.mat.$mth(&rhs.mat);\n            let bias = self.bias + &rhs.bias;")
# --- reduce
m("reduce_compares_matrices_only", "C08", RD, "                    if left.value.aff == right.value.aff {", "                    if left.value.aff.mat == right.value.aff.mat {")
m("reduce_keeps_label1_child", "C08", RD, "                        self.tree.remove_child(value.index, 1);\n                        self.tree.merge_child_with_parent(value.index, 0).unwrap();", "                        self.tree.remove_child(value.index, 0);\n                        self.tree.merge_child_with_parent(value.index, 1).unwrap();")
m("reduce_processes_root", "C08", RD, "                if value.index == self.tree.get_root_idx() {\n                    continue;\n                }", "")
# --- schema
m("schema_hard_tanh_terminals_swapped", "C17 C01", SC, "    dd.add_child_node(n, 0, affine_id).unwrap();\n    dd.add_child_node(n, 1, affine_min).unwrap();\n\n    dd\n}\n\n/// Creates an AffTree instance that corresponds to the hard shrink", "    dd.add_child_node(n, 1, affine_id).unwrap();\n    dd.add_child_node(n, 0, affine_min).unwrap();\n\n    dd\n}\n\n/// Creates an AffTree instance that corresponds to the hard shrink")
m("schema_leaky_alpha_on_identity_branch", "C17 C01", SC, "    dd.add_child_node(0, 0, affine_false).unwrap();\n    dd.add_child_node(0, 1, affine_true).unwrap();\n\n    dd\n}\n\n/// Creates an AffTree instance that corresponds to the hard hyperbolic", "    dd.add_child_node(0, 1, affine_false).unwrap();\n    dd.add_child_node(0, 0, affine_true).unwrap();\n\n    dd\n}\n\n/// Creates an AffTree instance that corresponds to the hard hyperbolic")
m("schema_argmax_last_level_swapped", "C17 C01", SC, "            let affine_false = AffFunc::constant(dim, max_when_false as f64);\n            let affine_true = AffFunc::constant(dim, max_when_true as f64);", "            let affine_false = AffFunc::constant(dim, max_when_true as f64);\n            let affine_true = AffFunc::constant(dim, max_when_false as f64);")
m("schema_class_skips_last_other", "C17 C01", SC, "    let mut iter = (0..dim).filter(|x| *x != clazz);", "    let mut iter = (0..dim.max(3) - 1).filter(|x| *x != clazz);")
m("schema_inf_norm_ignores_max", "C17", SC, "        (Some(a), Some(b)) => (a, Some(b)),", "        (Some(a), Some(b)) => (a, Some(b).filter(|_| false)),")
m("schema_threshold_value_on_label0", "C17", SC, "    let mut affine_true = AffFunc::zero_idx(dim, row);\n    affine_true.bias[row] = value;\n    let affine_false = AffFunc::identity(dim);\n\n    dd.add_child_node(0, 0, affine_false).unwrap();\n    dd.add_child_node(0, 1, affine_true).unwrap();", "    let mut affine_true = AffFunc::zero_idx(dim, row);\n    affine_true.bias[row] = value;\n    let affine_false = AffFunc::identity(dim);\n\n    dd.add_child_node(0, 1, affine_false).unwrap();\n    dd.add_child_node(0, 0, affine_true).unwrap();")
# --- builder / arch
m("builder_hard_tanh_bounds", "C01 C18", BU, "partial_hard_tanh(dim, *row, -1., 1.)", "partial_hard_tanh(dim, *row, 0., 1.)")
m("builder_classchar_uses_argmax", "C01", BU, "dd.compose::<true, false>(&class_characterization(dim, *clazz));", "dd.compose::<true, false>(&argmax(dim)); let _ = clazz;")
m("builder_read_layers_one_activation_more", "C18", BU, "            \"relu\" => {\n                for idx in 0..dim {", "            \"relu\" => {\n                for idx in 0..dim + 1 {")
m("builder_read_layers_sorted_descending", "C18", BU, "    names.sort_unstable();", "    names.sort_unstable();\n    names.reverse();")
m("arch_linear_checks_outdim", "C18", AR, "        self.current_shape.compatible_dim(aff.indim())?;", "        self.current_shape.compatible_dim(aff.outdim())?;")
m("arch_partial_index_le", "C18", AR, "                if idx < *in_dim {\n                    Ok(())", "                if idx <= *in_dim {\n                    Ok(())")
m("arch_extract_start_shape", "C18", AR, "            let mut iter_skip = iter.skip(start - 1);\n            let (_, input_shape) = iter_skip.next()", "            let mut iter_skip = iter.skip(start);\n            let (_, input_shape) = iter_skip.next()")


def sh(cmd, cwd=None, env=None, timeout=3600):
    e = dict(os.environ); e["CARGO_NET_OFFLINE"] = "true"
    if env: e.update(env)
    r = subprocess.run(cmd, shell=True, cwd=cwd, env=e, capture_output=True, text=True, timeout=timeout)
    return r.returncode, r.stdout + r.stderr


def main():
    repo, verif = sys.argv[1], sys.argv[2]
    flt = sys.argv[3] if len(sys.argv) > 3 else ""
    results = []
    for mu in M:
        if flt and flt not in mu["name"]:
            continue
        path = os.path.join(repo, mu["file"])
        src = open(path).read()
        if src.count(mu["old"]) < 1:
            print(f"{mu['name']}: PATTERN-NOT-FOUND"); results.append(dict(name=mu["name"], status="pattern-not-found")); continue
        open(path, "w").write(src.replace(mu["old"], mu["new"], 1))
        try:
            t0 = time.time()
            code, out = sh("cargo test --offline --lib 2>&1 | tail -5", cwd=repo)
            if "error" in out and "test result" not in out:
                status = "does-not-compile"; results.append(dict(name=mu["name"], status=status)); print(f"{mu['name']}: {status}"); continue
            unit_silent = "test result: ok" in out
            caught = {}
            for c in mu["checks"]:
                code, out = sh(f"./check {c} quick", cwd=verif, env={"VERIF_SEED": "0"})
                line = [l for l in out.splitlines() if l.startswith("failure")]
                caught[c] = dict(exit=code, msg=(line[0][:160] if line else ""))
            killed = [c for c, v in caught.items() if v["exit"] == 1]
            infra = [c for c, v in caught.items() if v["exit"] not in (0, 1)]
            status = "killed" if killed else ("infra" if infra else "SURVIVED")
            results.append(dict(name=mu["name"], file=mu["file"], unit_tests_silent=unit_silent, status=status, checks=caught, seconds=round(time.time() - t0)))
            print(f"{mu['name']}: {status} unit_tests_silent={unit_silent} killed_by={killed} infra={infra}", flush=True)
        finally:
            open(path, "w").write(src)
        json.dump(results, open(os.path.join(verif, "mutants_result.json"), "w"), indent=1)
    n = len([r for r in results if r.get("status") == "killed"])
    print(f"MUTANTS-DONE {n} killed of {len(results)}")


if __name__ == "__main__":
    main()
