#!/bin/bash
# usage: tools/silence_sweep.sh <tier> <seed>...    (meant for `vp run --with-repo -- tools/silence_sweep.sh quick 1 2 3`)
# Runs every check on the unchanged tree for several seeds and prints anything that is not silent.
TIER="$1"; shift
ROOT="$(cd "$(dirname "$0")/.." && pwd)"
cd "$ROOT"
if [ -n "${VP_RUN_REPO:-}" ]; then
  sed -i "s|path = \"/repo\"|path = \"$VP_RUN_REPO\"|" harness/Cargo.toml
  cp "$VP_RUN_REPO/Cargo.lock" harness/Cargo.lock 2>/dev/null || cp /repo/Cargo.lock harness/Cargo.lock
fi
for seed in "$@"; do
  for id in C01 C02 C03 C04 C05 C06 C07 C08 C09 C10 C11 C12 C13 C14 C15 C16 C17 C18 C19; do
    out=$(VERIF_SEED=$seed ./check $id $TIER 2>&1); code=$?
    line=$(echo "$out" | grep -E "^$id (quick|thorough):" | tail -1)
    if [ $code -ne 0 ] || echo "$out" | grep -q "VIOLATION"; then
      echo "ALARM seed=$seed $id exit=$code"; echo "$out" | grep -E "VIOLATION|failure|INFRA|detail" | head -5
      mkdir -p "$ROOT/sweep_replays"; for f in $(echo "$out" | grep -o "replay=[^ ]*" | cut -d= -f2); do cp "$f" "$ROOT/sweep_replays/" 2>/dev/null; done
    else
      echo "ok seed=$seed $line"
    fi
  done
done
echo SWEEP-DONE
